/-
  Model/Chain.lean — the fallback chain of `forged_signature` (sigtools/_specifiers.py).

  ```python
  def forged_signature(obj, auto=True, args=(), kwargs={}):
      subject = _util.get_introspectable(obj, af_hint=auto)
      forger = getattr(subject, '_sigtools__forger', None)
      if forger is not None:
          ret = forger(obj=subject)                                   # (1) nothing is caught here
          if ret is not None:
              return UpgradedSignature._upgrade_with_warning(ret)
      if auto:
          try:
              subject._sigtools__autoforwards_hint
          except AttributeError:
              pass
          else:
              h = subject._sigtools__autoforwards_hint(subject)       # (2a) nothing is caught here
              if h is not None:
                  try:
                      ret = _autoforwards.autoforwards_ast(*h, args=args, kwargs=kwargs)   # (2b)
                  except _autoforwards.UnknownForwards:
                      pass
                  else:
                      return UpgradedSignature._upgrade_with_warning(ret)
              subject = _util.get_introspectable(subject, af_hint=False)
          try:
              ret = UpgradedSignature._upgrade_with_warning(
                  _autoforwards.autoforwards(subject, args, kwargs))  # (3)
          except _autoforwards.UnknownForwards:
              pass
          else:
              return UpgradedSignature._upgrade_with_warning(ret)
      return UpgradedSignature._upgrade_with_warning(_signatures.signature(obj))   # (4) nothing is caught
  ```

  What the four components DO is data here (`COutcome`); which object they are looked up on
  (`get_introspectable`) and what they compute is outside this file (for (3) and (2b) it is
  Model/Discovery.lean: `autoFn`, `autoforwardsAst`).  The chain is generic in the type `σ` of
  signatures: it never looks inside one.  (`_upgrade_with_warning` is the identity on what the components
  of sigtools return, UpgradedSignature instances; for a foreign forger that returns something else, the
  upgraded signature — or the exception of the failed upgrade — is the forger's outcome.)

  Reading of an `COutcome` per component, and the values that cannot occur:

  * forger (`none` = no `_sigtools__forger` attribute, or the attribute is `None`)
      `.sig s`             the forger returned a signature
      `.noOpinion`         the forger returned `None`
      `.raises e`          the forger raised `e`; it escapes, whatever `e` is
      `.unknownForwards`   the forger raised UnknownForwards: NOT caught — the same as `.raises .unknownForwards`
  * hint (`none` = no `_sigtools__autoforwards_hint` attribute on the subject)
      `.noOpinion`         the hint callable returned `None`                                     (2a)
      `.sig s`             it returned a triple and `autoforwards_ast` returned `s`              (2b)
      `.unknownForwards`   it returned a triple and `autoforwards_ast` raised UnknownForwards: caught   (2b)
      `.raises e`          an exception that is not caught: `autoforwards_ast` raised `e`, not an
                           UnknownForwards (2b) — or the hint CALLABLE ITSELF raised `e` (2a), and there
                           nothing is caught: `.raises .unknownForwards` in this slot is "the hint callable
                           raised UnknownForwards", which escapes (checked on the Python code).
                           (The hint of sigtools, `modifiers._PokTranslator`, never raises.)
  * auto_ (what `autoforwards(subject, args, kwargs)` does; always consulted when the chain gets there)
      `.sig s`             returned `s`
      `.unknownForwards`   raised UnknownForwards: caught
      `.raises e`          raised `e`; escapes unless `e` is UnknownForwards — every UnknownForwards that
                           comes out of `autoforwards` is caught, so `.raises .unknownForwards` is a second
                           spelling of `.unknownForwards` in this slot
      `.noOpinion`         IMPOSSIBLE: `autoforwards` never returns `None` (if it did, the upgrade of `None`
                           would fail — AttributeError, or the DeprecationWarning when warnings are errors).
                           The model lets the chain go on, as for an UnknownForwards; `chainOp` refuses it.
  * plain (`signatures.signature(obj)`): a signature or an exception — it never "has no opinion", and
    nothing is caught around it; so it is an `Except Err σ`, not an `COutcome`.

  Core Lean only (compiled into the driver).
-/
import Sigverif.Model.Basic
namespace SV

/-- what one component of the chain does -/
inductive COutcome (σ : Type) where
  | sig (s : σ)
  | noOpinion
  | unknownForwards
  | raises (e : Err)
  deriving DecidableEq, Repr, Inhabited

/-- `Except Err σ` as an outcome: UnknownForwards is told apart from the other exceptions -/
def COutcome.ofExcept {σ : Type} : Except Err σ → COutcome σ
  | .ok s => .sig s
  | .error .unknownForwards => .unknownForwards
  | .error e => .raises e

structure ChainInputs (σ : Type) where
  /-- `_sigtools__forger`; `none` = attribute absent (or `None`) -/
  forger : Option (COutcome σ)
  /-- `_sigtools__autoforwards_hint` followed by `autoforwards_ast`; `none` = attribute absent -/
  hint   : Option (COutcome σ)
  /-- `autoforwards(subject, args, kwargs)` -/
  auto_  : COutcome σ
  /-- `signatures.signature(obj)` -/
  plain  : Except Err σ

section
variable {σ : Type}

/-- block (1): `some r` = the chain ends here with `r`; `none` = it goes on -/
def forgerStep : Option (COutcome σ) → Option (Except Err σ)
  | none => none                                          -- `forger is None`
  | some (.sig s) => some (.ok s)                         -- `ret is not None`: returned
  | some .noOpinion => none                               -- `ret is None`
  | some .unknownForwards => some (.error .unknownForwards)   -- no `try` around the forger
  | some (.raises e) => some (.error e)

/-- block (2), under `if auto:` -/
def hintStep : Option (COutcome σ) → Option (Except Err σ)
  | none => none                                          -- `except AttributeError: pass`
  | some (.sig s) => some (.ok s)                         -- `else: return …(ret)`
  | some .noOpinion => none                               -- `h is None`
  | some .unknownForwards => none                         -- `except UnknownForwards: pass`
  | some (.raises e) => some (.error e)                   -- not caught (see the header for `e = UnknownForwards`)

/-- block (3), under `if auto:` -/
def autoStep : COutcome σ → Option (Except Err σ)
  | .sig s => some (.ok s)                                -- `else: return …(ret)`
  | .unknownForwards => none                              -- `except UnknownForwards: pass`
  | .raises .unknownForwards => none                      -- the same thing, spelt differently
  | .raises e => some (.error e)                          -- any other exception escapes
  | .noOpinion => none                                    -- impossible value (see the header)

/-- `forged_signature(obj, auto, args, kwargs)` -/
def forgedSignature (auto : Bool) (c : ChainInputs σ) : Except Err σ :=
  match forgerStep c.forger with
  | some r => r
  | none =>
    if auto then
      match hintStep c.hint with
      | some r => r
      | none =>
        match autoStep c.auto_ with
        | some r => r
        | none => c.plain                                 -- block (4)
    else c.plain                                          -- block (4)

end

/-! ### the line protocol

  request tokens (after the operation name):  `<auto> <forger> <hint> <auto_> <plain>`
    `<auto>`    `0` | `1`
    `<forger>`  `-` | `N` | `U` | `S<k>` | `E<name>`
    `<hint>`    `-` | `N` | `U` | `S<k>` | `E<name>`
    `<auto_>`   `U` | `S<k>` | `E<name>`            (`N` is refused: `autoforwards` cannot return `None`)
    `<plain>`   `S<k>` | `E<name>`
  `-` absent, `N` returned `None`, `U` = `COutcome.unknownForwards`, `S<k>` returned the signature numbered
  `k` (decimal digits only), `E<name>` = `COutcome.raises`, `<name>` a constructor name of `Err`.
  answer: `ok <k>` | `err <name>`.  Signatures are plain numbers here (`σ := Nat`).
-/
namespace Chain

def errNames : List (String × Err) :=
  [("valueError", .valueError), ("incompatible", .incompatible), ("typeError", .typeError),
   ("keyError", .keyError), ("attributeError", .attributeError), ("indexError", .indexError),
   ("assertion", .assertion), ("unknownForwards", .unknownForwards),
   ("unresolvableName", .unresolvableName), ("notImplemented", .notImplemented),
   ("stopIteration", .stopIteration)]

def parseErr (s : String) : Option Err := (errNames.find? (fun p => p.1 == s)).map (·.2)

def errName : Err → String
  | .valueError => "valueError" | .incompatible => "incompatible" | .typeError => "typeError"
  | .keyError => "keyError" | .attributeError => "attributeError" | .indexError => "indexError"
  | .assertion => "assertion" | .unknownForwards => "unknownForwards"
  | .unresolvableName => "unresolvableName" | .notImplemented => "notImplemented"
  | .stopIteration => "stopIteration"

/-- decimal digits only, at least one -/
def parseNum (cs : List Char) : Option Nat :=
  if cs.isEmpty || !cs.all Char.isDigit then none
  else some (cs.foldl (fun n c => 10 * n + (c.toNat - '0'.toNat)) 0)

/-- `N` | `U` | `S<k>` | `E<name>` -/
def parseOutcome (s : String) : Option (COutcome Nat) :=
  match s.toList with
  | ['N'] => some .noOpinion
  | ['U'] => some .unknownForwards
  | 'S' :: r => (parseNum r).map .sig
  | 'E' :: r => (parseErr (String.ofList r)).map .raises
  | _ => none

/-- forger / hint: `-` or an outcome -/
def parseSlot (s : String) : Option (Option (COutcome Nat)) :=
  if s = "-" then some none else (parseOutcome s).map some

/-- auto_: an outcome that `autoforwards` can have -/
def parseAuto (s : String) : Option (COutcome Nat) :=
  match parseOutcome s with
  | some .noOpinion => none
  | r => r

/-- plain: `S<k>` | `E<name>` -/
def parsePlain (s : String) : Option (Except Err Nat) :=
  match parseOutcome s with
  | some (.sig k) => some (.ok k)
  | some (.raises e) => some (.error e)
  | _ => none

def parseBool : String → Option Bool
  | "0" => some false | "1" => some true | _ => none

def showAnswer : Except Err Nat → String
  | .ok k => "ok " ++ toString k
  | .error e => "err " ++ errName e

end Chain

/-- the driver hook: `none` = the request does not parse (the driver answers bad-op) -/
def chainOp (toks : List String) : Option String :=
  match toks with
  | [a, f, h, au, p] => do
    let auto ← Chain.parseBool a
    let forger ← Chain.parseSlot f
    let hint ← Chain.parseSlot h
    let auto_ ← Chain.parseAuto au
    let plain ← Chain.parsePlain p
    some (Chain.showAnswer (forgedSignature auto { forger, hint, auto_, plain }))
  | _ => none

end SV
