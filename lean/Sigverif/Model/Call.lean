/-
  Model/Call.lean — value-level model of CPython's argument binding for a `def` function
  (3.8+ rules), used by C12 (modifiers) and C20 (support.bind_callsig).

  A call is `(args, kwargs)`: positional values and an association list keyword → value in
  call order (keywords are duplicate-free: `f(a=1, a=2)` is a SyntaxError).  Values are
  natural-number tokens.  The result maps every named parameter to its value (defaults
  filled in) and gives the `*args` tuple and the `**kwargs` dict when the signature has
  them — exactly what a function made by `sigtools.support.f` returns.
-/
import Sigverif.Model.Bind
namespace SV

structure Bound where
  named : List (Nat × Nat) := []          -- parameter name → value
  va : Option (List Nat) := none          -- the *args tuple
  vk : Option (List (Nat × Nat)) := none  -- the **kwargs dict (call order)
  deriving DecidableEq, Repr, Inhabited

/-- positional phase: fill po/pk parameters left to right; the surplus goes to *args -/
def bindPos : List Param → List Nat → List (Nat × Nat) → (List (Nat × Nat) × List Nat)
  | p :: ps, a :: as, acc => bindPos ps as (acc ++ [(p.name, a)])
  | _, as, acc => (acc, as)

/-- keyword phase, left to right -/
def bindKws (s : List Param) (hasVk : Bool) :
    List (Nat × Nat) → List (Nat × Nat) → List (Nat × Nat) → Option (List (Nat × Nat) × List (Nat × Nat))
  | [], named, extra => some (named, extra)
  | (k, v) :: rest, named, extra =>
    if (kwNames s).contains k then
      if dhas named k then none                       -- multiple values for argument
      else bindKws s hasVk rest (named ++ [(k, v)]) extra
    else if hasVk then bindKws s hasVk rest named (extra ++ [(k, v)])
    else none                                          -- unexpected keyword / positional-only by name

/-- defaults for what is still unbound; a required one missing → TypeError -/
def fillDefaults : List Param → List (Nat × Nat) → Option (List (Nat × Nat))
  | [], named => some named
  | p :: ps, named =>
    if dhas named p.name then fillDefaults ps named
    else match p.dflt with
      | some d => fillDefaults ps (named ++ [(p.name, d)])
      | none => none

/-- `f(*args, **kwargs)` for a def with parameters `s`; `none` = TypeError -/
def bindCall (s : List Param) (args : List Nat) (kwargs : List (Nat × Nat)) : Option Bound :=
  let (named, surplus) := bindPos (positionals s) args []
  if !surplus.isEmpty && !hasVa s then none else
  match bindKws s (hasVk s) kwargs named [] with
  | none => none
  | some (named, extra) =>
    match fillDefaults (s.filter isNamed) named with
    | none => none
    | some named =>
      some { named := named,
             va := if hasVa s then some surplus else none,
             vk := if hasVk s then some extra else none }

/-- two results are the same mapping (Python dict equality: order-insensitive on parameters,
    and on the `**kwargs` dict) -/
def Bound.equiv (a b : Bound) : Prop :=
  (∀ x, dget a.named x = dget b.named x) ∧ a.va = b.va ∧
  (a.vk.isSome = b.vk.isSome) ∧ (∀ x, (a.vk.bind (dget · x)) = (b.vk.bind (dget · x)))

end SV
