/-
  Model/Eq.lean — comparison and hashing of the objects sigtools returns (C14).

  `data` abstracts `inspect.Signature._hash_basis()` / the (name, kind, default, annotation) tuple of
  a Parameter: two objects have the same `data` token iff the inherited comparison finds them equal.
  `ua` is the value (`source_value()`) of the upgraded (return) annotation.
  The Python `==` protocol is modelled explicitly: reflected method first when the right operand's
  class is a proper subclass of the left one's and overrides `__eq__`, NotImplemented fall-back to
  the reflected method and then to identity.
-/
import Sigverif.Model.Basic
namespace SV

inductive Obj where
  | usig (id data ua : Nat)      -- UpgradedSignature (id = object identity)
  | psig (id data : Nat)         -- plain inspect.Signature
  | uparam (id data ua : Nat)    -- UpgradedParameter
  | pparam (id data : Nat)       -- plain inspect.Parameter
  | other (id : Nat)             -- anything else (None, strings, …): default object comparison
  deriving DecidableEq, Repr, Inhabited

def Obj.id : Obj → Nat
  | .usig i _ _ | .psig i _ | .uparam i _ _ | .pparam i _ | .other i => i

inductive EqRes where | t | f | notImpl deriving DecidableEq, Repr

/-- `inspect.Signature.__eq__(a, b)` / `inspect.Parameter.__eq__(a, b)` -/
def baseEq (a b : Obj) : EqRes :=
  if a.id = b.id then .t else
  match a, b with
  | .usig _ d _, .usig _ d' _ | .usig _ d _, .psig _ d' | .psig _ d, .usig _ d' _ | .psig _ d, .psig _ d' =>
    if d = d' then .t else .f
  | .uparam _ d _, .uparam _ d' _ | .uparam _ d _, .pparam _ d' | .pparam _ d, .uparam _ d' _
  | .pparam _ d, .pparam _ d' => if d = d' then .t else .f
  | _, _ => .notImpl

/-- `type(a).__eq__(a, b)`; an attribute access on an object that lacks it is `attributeError`
    (as after `fix:` D5 it can no longer be reached) -/
def dunderEq (a b : Obj) : Except Err EqRes :=
  match a with
  | .usig _ _ u =>
    let r := baseEq a b
    if r ≠ .t then .ok r else
    match b with
    | .usig _ _ u' => .ok (if u = u' then .t else .f)     -- other.upgraded_return_annotation
    | _ => .ok r                                           -- not isinstance(other, UpgradedSignature)
  | .uparam _ _ u =>
    let r := baseEq a b
    if r ≠ .t then .ok r else
    match b with
    | .uparam _ _ u' => .ok (if u = u' then .t else .f)
    | _ => .ok r
  | .psig _ _ | .pparam _ _ => .ok (baseEq a b)
  | .other _ => .ok (if a.id = b.id then .t else .notImpl)

/-- is `type b` a proper subclass of `type a` that overrides `__eq__`? -/
def reflectedFirst (a b : Obj) : Bool :=
  match a, b with
  | .psig _ _, .usig _ _ _ => true
  | .pparam _ _, .uparam _ _ _ => true
  | _, _ => false

/-- `a == b` -/
def pyEq (a b : Obj) : Except Err Bool := do
  let first ← if reflectedFirst a b then dunderEq b a else dunderEq a b
  match first with
  | .t => pure true
  | .f => pure false
  | .notImpl =>
    let second ← if reflectedFirst a b then dunderEq a b else dunderEq b a
    match second with
    | .t => pure true
    | .f => pure false
    | .notImpl => pure (a.id = b.id)

/-- `a != b` (derived from `__eq__`) -/
def pyNe (a b : Obj) : Except Err Bool := (pyEq a b).map (!·)

/-- `hash(a)`; `none` = unhashable.  The hash of a signature / parameter is a function of its
    base data (`__hash__` is inherited, as after `fix:` D5). -/
def pyHash : Obj → Option Nat
  | .usig _ d _ | .psig _ d => some (2 * d)
  | .uparam _ d _ | .pparam _ d => some (2 * d + 1)
  | .other i => some (1000 + i)

/-- `replace(**changes)` on an upgraded signature: returns the upgraded type, keeps `ua` unless
    overridden (data changes are a new data token) -/
def replaceSig (o : Obj) (newId : Nat) (newData : Option Nat) (newUa : Option Nat) : Obj :=
  match o with
  | .usig _ d u => .usig newId (newData.getD d) (newUa.getD u)
  | .uparam _ d u => .uparam newId (newData.getD d) (newUa.getD u)
  | .psig _ d => .psig newId (newData.getD d)
  | .pparam _ d => .pparam newId (newData.getD d)
  | .other _ => o

end SV
