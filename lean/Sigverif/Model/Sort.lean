/-
  Model/Sort.lean — sort_params / apply_params / copy_sources / default_sources /
  merge_depths and the validating `inspect.Signature` constructor.
-/
import Sigverif.Model.Basic
namespace SV

/-- `inspect.Signature.__init__` parameter validation (CPython 3.12):
    kinds non-decreasing, no required positional after a defaulted one, unique names.
    State: (top_kind rank, seen_default, names so far). -/
def validateGo : Nat → Bool → List Nat → List Param → Except Err Unit
  | _, _, _, [] => .ok ()
  | top, seenD, seen, p :: ps =>
    if p.kind.rank < top then .error .valueError else
    let top' := if p.kind.rank > top then p.kind.rank else top
    if (p.kind = .po || p.kind = .pk) && p.dflt.isNone && seenD then .error .valueError else
    let seenD' := seenD || ((p.kind = .po || p.kind = .pk) && p.dflt.isSome)
    if seen.contains p.name then .error .valueError else
    validateGo top' seenD' (p.name :: seen) ps

def validate (ps : List Param) : Except Err Unit := validateGo 0 false [] ps

/-- `copy_sources(src)` with the default `func_swap={}`: every list is copied (a no-op on
    values); `increase` is added to every depth. -/
def copyDepths (d : Depths) (increase : Nat) : Depths := d.map (fun e => (e.1, e.2 + increase))

/-- `copy_sources(src, func_swap={a: b})` (used by modifiers) -/
def swapFn (a b : Nat) (f : Nat) : Nat := if f = a then b else f
def swapSrcs (a b : Nat) (s : Srcs) : Srcs := s.map (fun e => (e.1, e.2.map (swapFn a b)))
/-- dict comprehension: later duplicates of the swapped key overwrite in place -/
def swapDepths (a b : Nat) (d : Depths) : Depths :=
  d.foldl (fun acc e => dset acc (swapFn a b e.1) e.2) []

/-- `merge_depths(l, r)` -/
def mergeDepths (l r : Depths) : Depths :=
  r.foldl (fun acc e =>
    match dget acc e.1 with
    | some d => if e.2 > d then acc else dset acc e.1 e.2
    | none => dset acc e.1 e.2) l

/-- `default_sources(sig, obj)` -/
def defaultSources (ps : List Param) (f : Nat) : Srcs × Depths :=
  (ps.foldl (fun acc p => dset acc p.name [f]) [], [(f, 0)])

/-- `sort_params(sig, sources=True)`.  A valid signature has unique names, so appending to
    the keyword-only bucket is what `kwoargs[param.name] = param` does; `pset` keeps the
    dict semantics for signatures that are not valid. -/
def sortGo : List Param → Sorted → Sorted
  | [], s => s
  | p :: ps, s =>
    sortGo ps (match p.kind with
      | .po => { s with pos := s.pos ++ [p] }
      | .pk => { s with pok := s.pok ++ [p] }
      | .vp => { s with va := some p }
      | .ko => { s with kwo := pset s.kwo p }
      | .vk => { s with vk := some p })

def sortParams (sig : USig) : Sorted :=
  sortGo sig.params { src := sig.src, depths := copyDepths sig.depths 0 }

/-- `apply_params(sig, *sorted)`: rebuilds and *validates* (→ ValueError). The return
    annotation comes from `sig`. -/
def applyParams (sig : USig) (s : Sorted) : Except Err USig := do
  validate s.all
  pure { params := s.all, src := s.src, depths := s.depths, ret := sig.ret, uret := sig.uret }

end SV
