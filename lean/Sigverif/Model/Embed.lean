/-
  Model/Embed.lean — `_embed`, `embed`, `_check_no_dupes`, `_clear_defaults`.
-/
import Sigverif.Model.Merge
namespace SV

/-- `_check_no_dupes(collect, params)`: raises when a name of `params` is already
    collected (duplicates *inside* `params` are not detected, as in the code). -/
def checkNoDupes (collect : List Nat) (ps : List Param) : Except Err (List Nat) :=
  if (names ps).any (fun n => collect.contains n) then .error .valueError
  else .ok (collect ++ names ps)

def clearDefaults (ps : List Param) : List Param := ps.map (·.withDflt none)

/-- `_embed(outer, inner, use_varargs, use_varkwargs, depth)` -/
def embedStep (outer inner : Sorted) (uva uvk : Bool) (depth : Nat) : Except Err Sorted := do
  let stars : Sorted := { va := if uva then outer.va else none,
                          vk := if uvk then outer.vk else none }
  let i ← mergeStep inner stars
  let nm : List Nat := []
  let ePos := outer.pos
  let nm ← checkNoDupes nm outer.pos
  let (ePos, ePok, nm) ←
    (match i.pos with
     | ip0 :: _ => do
        let nm ← checkNoDupes nm outer.pok
        let ePos := ePos ++ outer.pok.map (·.withKind .po)
        let ePos := if ip0.dflt.isNone then clearDefaults ePos else ePos
        let nm ← checkNoDupes nm i.pos
        pure (ePos ++ i.pos, ([] : List Param), nm)
     | [] => do
        let nm ← checkNoDupes nm outer.pok
        match i.pok with
        | q0 :: _ =>
          if q0.dflt.isNone then pure (clearDefaults ePos, clearDefaults outer.pok, nm)
          else pure (ePos, outer.pok, nm)
        | [] => pure (ePos, outer.pok, nm) : Except Err (List Param × List Param × List Nat))
  let nm ← checkNoDupes nm i.pok
  let ePok := ePok ++ i.pok
  let nm ← checkNoDupes nm outer.kwo
  let eKwo := pupdate [] outer.kwo
  let nm ← checkNoDupes nm i.kwo
  let eKwo := pupdate eKwo i.kwo
  -- the star parameters of the result must not be named like anything collected so far
  -- (as after `fix:` D29: provenance is keyed by name)
  let eVa := if uva then i.va else outer.va
  let eVk := if uvk then i.vk else outer.vk
  let nm ← checkNoDupes nm eVa.toList
  let _ ← checkNoDupes nm eVk.toList
  -- provenance: the forwarded star parameters of `outer` are dropped from its map
  -- *before* it is laid over the inner one (as after `fix:` D3)
  let oSrc := outer.src
  let oSrc := match outer.va with | some p => if uva then dpop oSrc p.name else oSrc | none => oSrc
  let oSrc := match outer.vk with | some p => if uvk then dpop oSrc p.name else oSrc | none => oSrc
  let src := dupdate i.src oSrc
  let depths := mergeDepths outer.depths (copyDepths i.depths depth)
  pure { pos := ePos, pok := ePok, va := eVa, kwo := eKwo, vk := eVk, src := src, depths := depths }

def embedFold (uva uvk : Bool) : Sorted → Nat → List USig → Except Err Sorted
  | acc, _, [] => .ok acc
  | acc, i, s :: ss =>
    match embedStep acc (sortParams s) uva uvk i with
    | .ok acc' => embedFold uva uvk acc' (i + 1) ss
    | .error _ => .error .incompatible

/-- `embed(*signatures, use_varargs, use_varkwargs)` -/
def embed (uva uvk : Bool) : List USig → Except Err USig
  | [] => .error .assertion
  | s :: ss => do
    let r ← embedFold uva uvk (sortParams s) 1 ss
    applyParams s r

end SV
