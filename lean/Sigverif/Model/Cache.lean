/-
  Model/Cache.lean — `OverrideableDataDesc.insts` (the per-instance wrapper cache behind
  kwoargs/posoargs-decorated methods) as a reachability problem over operation histories (C18).

  Objects: instances `i`, their bound methods `bm i` (strong reference to `i`), the cached wrappers
  `w i` (strong reference to `bm i`).  Roots: the class (hence the descriptor and its dictionary)
  and whatever the caller holds.  The dictionary maps `bm i ↦ w i`; which side is weak is the
  design decision under study:
    weakKey   — WeakKeyDictionary   (the pinned code: key weak, value strong)
    weakValue — WeakValueDictionary (as after `fix:` D7: key strong, value weak)
  Two more kinds describe the getters that hand the bound method back AS IT IS
  (`posoargs(end='self')`: binding consumed the whole selection, nothing is left to convert):
    selfEntry — what the code did before `fix:` D91: the bound method was stored under itself in the
                WeakValueDictionary (`insts[bm i] = bm i`): the weak value is referenced by its own
                strong key, so it never dies
    noStore   — as after D91: such a result is not stored at all
-/
import Sigverif.Model.Basic
namespace SV

inductive DictKind where | weakKey | weakValue | selfEntry | noStore deriving DecidableEq, Repr

inductive COp where
  | get (i : Nat)        -- `inst.method`: caller obtains (a reference to) the wrapper of instance i
  | call (i : Nat)       -- `inst.method(...)`: obtains the wrapper, calls it, drops it at once
  | dropWrapper (i : Nat)   -- caller drops every reference to the wrapper(s) obtained from instance i
  | dropInst (i : Nat)      -- caller drops every reference to instance i itself
  | newInst (i : Nat)       -- caller creates / re-acquires instance i
  | gc
  deriving DecidableEq, Repr

structure CState where
  entries : List Nat := []       -- instances i with an entry bm i ↦ w i in the dictionary
  heldInst : List Nat := []      -- instances the caller references directly
  heldWrap : List Nat := []      -- instances whose wrapper the caller references
  deriving DecidableEq, Repr

/-- strongly reachable instances -/
def CState.alive (k : DictKind) (s : CState) : List Nat :=
  match k with
  | .weakKey   => s.heldInst ++ s.heldWrap ++ s.entries      -- the strong value keeps bm i, hence i
  | .weakValue => s.heldInst ++ s.heldWrap ++ s.entries      -- the strong key bm i keeps i while the entry exists
  | .selfEntry => s.heldInst ++ s.heldWrap ++ s.entries
  | .noStore => s.heldInst ++ s.heldWrap ++ s.entries        -- (there never are entries)

/-- garbage collection: an entry disappears when its weak side died.
    weakKey: the key `bm i` is referenced by the value `w i`, which the dictionary holds strongly —
             so the key never dies and the entry stays.
    weakValue: the value `w i` dies as soon as the caller does not hold it. -/
def CState.collect (k : DictKind) (s : CState) : CState :=
  match k with
  | .weakKey => s
  | .weakValue => { s with entries := s.entries.filter (fun i => s.heldWrap.contains i) }
  | .selfEntry => s          -- the value IS the key: referenced strongly by the dictionary itself
  | .noStore => { s with entries := s.entries.filter (fun i => s.heldWrap.contains i) }

def addOnce (l : List Nat) (i : Nat) : List Nat := if l.contains i then l else i :: l

def cstep (k : DictKind) (s : CState) : COp → CState
  | .get i => if s.heldInst.contains i
              then { s with entries := if k = .noStore then s.entries else addOnce s.entries i,
                            heldWrap := addOnce s.heldWrap i } else s
  | .call i => if s.heldInst.contains i
               then { s with entries := if k = .noStore then s.entries else addOnce s.entries i } else s
  | .dropWrapper i => { s with heldWrap := s.heldWrap.filter (· ≠ i) }
  | .dropInst i => { s with heldInst := s.heldInst.filter (· ≠ i) }
  | .newInst i => { s with heldInst := addOnce s.heldInst i }
  | .gc => s.collect k

def crun (k : DictKind) (ops : List COp) : CState := ops.foldl (cstep k) {}

/-- which wrapper `get i` returns: the cache always answers with the wrapper bound to the
    instance asked for (entries are keyed by the bound method, i.e. by instance) -/
def wrapperFor (_ : CState) (i : Nat) : Nat := i

end SV
