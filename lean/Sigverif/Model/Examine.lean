/-
  Model/Examine.lean — how often, and how deep, discovery examines functions that forward to each
  other: `_autoforwards._examine_once` (the guard against functions that forward to themselves,
  a per-thread stack of the functions under examination) and the two routes by which
  `forged_signature` reaches it for a `modifiers`-decorated function (the autoforwards hint, then
  `autoforwards(subject)` → `autoforwards_hint`), as repaired by D88 (both hint routes run under the
  guard; before, neither did).

  A call graph in which every function forwards `*args, **kwargs` to exactly one callee
  (`succ f = some c`), or to a terminal function that forwards nothing (`none`); `hinted f` = the
  function is decorated with `modifiers.kwoargs` on a parameter of its own (name `f + 2`; the
  terminal function's parameters are `0, 1`).  An examination of `f` fails (UnknownForwards)
  when `f` is already on the stack, or when what was found for its callee already has `f`'s own
  parameter (the embedding raises a duplicate name); a failed retrieval falls back to the plain
  signature (`own f`).  The observable is the sequence of guard events, which stream `examine`
  compares with the real `_examine_once` calls.  Fuel = bound on the nesting of calls.
-/
namespace SV

structure FGraph where
  succ : Nat → Option Nat
  hinted : Nat → Bool

inductive Ev where
  | enter (f : Option Nat) (depth : Nat)
  | uf (f : Option Nat)
  | ok (f : Nat)
  deriving DecidableEq, Repr

def ownNames (g : FGraph) (f : Nat) : List Nat := if g.hinted f then [f + 2] else []

def clash (a b : List Nat) : Bool := a.any (fun x => b.contains x)

mutual
  /-- `forged_signature(c)` inside an examination: result = guard events, parameter names found -/
  def forgedF (g : FGraph) : Nat → List Nat → Option Nat → Option (List Ev × List Nat)
    | 0, _, _ => none
    | _ + 1, stack, none => some ([.enter none stack.length, .uf none], [0, 1])
    | b + 1, stack, some f =>
      match guardedF g b stack f with
      | none => none
      | some (t1, some names) => some (t1, names)
      | some (t1, none) =>
        if g.hinted f then
          -- second route: autoforwards(subject) → autoforwards_hint, under the guard as well
          match guardedF g b stack f with
          | none => none
          | some (t2, some names) => some (t1 ++ t2, names)
          | some (t2, none) => some (t1 ++ t2, ownNames g f)
        else some (t1, ownNames g f)
  /-- `_examine_once(f, …)` -/
  def guardedF (g : FGraph) : Nat → List Nat → Nat → Option (List Ev × Option (List Nat))
    | 0, _, _ => none
    | b + 1, stack, f =>
      if stack.contains f then some ([.enter (some f) stack.length, .uf (some f)], none)
      else
        match forgedF g b (f :: stack) (g.succ f) with
        | none => none
        | some (t, names) =>
          if clash (ownNames g f) names then
            some (.enter (some f) stack.length :: t ++ [.uf (some f)], none)
          else some (.enter (some f) stack.length :: t ++ [.ok f], some (ownNames g f ++ names))
end

/-- a top-level retrieval of `f` in a graph of `n` functions -/
def examineTrace (g : FGraph) (n f : Nat) : Option (List Ev) :=
  (forgedF g (2 * n + 2) [] (some f)).map (·.1)

/-! ### the code before D88: the hint routes did not go through the guard (no check, no push) -/
mutual
  def forgedOldF (g : FGraph) : Nat → List Nat → Option Nat → Option (List Ev × List Nat)
    | 0, _, _ => none
    | _ + 1, stack, none => some ([.enter none stack.length, .uf none], [0, 1])
    | b + 1, stack, some f =>
      if g.hinted f then
        match hintedOldF g b stack f with
        | none => none
        | some (t1, some names) => some (t1, names)
        | some (t1, none) =>
          match hintedOldF g b stack f with
          | none => none
          | some (t2, some names) => some (t1 ++ t2, names)
          | some (t2, none) => some (t1 ++ t2, ownNames g f)
      else
        match guardedOldF g b stack f with
        | none => none
        | some (t1, some names) => some (t1, names)
        | some (t1, none) => some (t1, ownNames g f)
  def hintedOldF (g : FGraph) : Nat → List Nat → Nat → Option (List Ev × Option (List Nat))
    | 0, _, _ => none
    | b + 1, stack, f =>
      match forgedOldF g b stack (g.succ f) with
      | none => none
      | some (t, names) =>
        if clash (ownNames g f) names then some (t, none) else some (t, some (ownNames g f ++ names))
  def guardedOldF (g : FGraph) : Nat → List Nat → Nat → Option (List Ev × Option (List Nat))
    | 0, _, _ => none
    | b + 1, stack, f =>
      if stack.contains f then some ([.enter (some f) stack.length, .uf (some f)], none)
      else
        match forgedOldF g b (f :: stack) (g.succ f) with
        | none => none
        | some (t, names) =>
          if clash (ownNames g f) names then
            some (.enter (some f) stack.length :: t ++ [.uf (some f)], none)
          else some (.enter (some f) stack.length :: t ++ [.ok f], some (ownNames g f ++ names))
end

end SV
