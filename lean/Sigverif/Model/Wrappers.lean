/-
  Model/Wrappers.lean — wrappers.decorator / wrapper_decorator stacks and wrappers.wrappers (C13).

  A decorated callable is `wrapped w inner`: `_sigtools__wrappers = (w,)`, `__wrapped__ = inner`,
  calling it is `partial(w, inner)(…)`.  Call transparency is definitional in any such model
  (the object IS the composition) and is therefore NOT claimed as a theorem; it is validated on the
  real objects (stream `wrap`).  What is modelled is the introspection side.
-/
import Sigverif.Model.Mask
namespace SV

inductive WObj where
  | base (f : Nat)                       -- a plain function
  | wrapped (w : Nat) (inner : WObj)     -- _SimpleWrapped / _Wrapped
  deriving DecidableEq, Repr

/-- applying the decorators `ws` (outermost first) to `f` -/
def decorate (ws : List Nat) (f : Nat) : WObj := ws.foldr .wrapped (.base f)

/-- `wrappers.wrappers(obj)`: follow `_sigtools__wrappers` / `__wrapped__` -/
def wrappersOf : WObj → List Nat
  | .base _ => []
  | .wrapped w inner => w :: wrappersOf inner

/-- the reported signature of a stack: each level is `forwards(sig(partial(w, inner)), sig(inner))`,
    where the wrapper function's own signature is `(func, <own>, *args, **kwargs)` with `func` bound -/
def stackSig (sigOfWrapper : Nat → USig) (sigOfFunc : Nat → USig) : WObj → Except Err USig
  | .base f => .ok (sigOfFunc f)
  | .wrapped w inner => do
    let i ← stackSig sigOfWrapper sigOfFunc inner
    let o ← mask (sigOfWrapper w) 1 [] {}          -- partial(wrapper, wrapped): `func` is bound
    forwards o i 0 [] false false true true false

end SV
