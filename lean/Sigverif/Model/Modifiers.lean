/-
  Model/Modifiers.lean — sigtools.modifiers: `_PokTranslator._prepare`, `__call__`,
  the `start=` / `end=` / `autokwoargs(exceptions=)` name computations, stacking
  (`_merge_other`) and `annotate`.
-/
import Sigverif.Model.Call
import Sigverif.Model.Sort
namespace SV

/-- `set.remove(x)` — KeyError when absent -/
def setRemove (s : List Nat) (x : Nat) : Except Err (List Nat) :=
  if s.contains x then .ok (s.filter (· ≠ x)) else .error .keyError

structure PrepState where
  params : List Param := []
  kwoparams : List Param := []
  kwopos : List (Nat × Param) := []
  foundPok : Bool := false
  foundKws : Bool := false
  toUse : List Nat
  deriving Repr

/-- one iteration of the loop of `_prepare` over `enumerate(sig.parameters.values())` -/
def prepStep (P W : List Nat) (st : PrepState) (i : Nat) (p : Param) : Except Err PrepState :=
  if p.kind = .pk then
    if P.contains p.name then
      if st.foundPok then .error .valueError else do
        let tu ← setRemove st.toUse p.name
        pure { st with params := st.params ++ [p.withKind .po], toUse := tu }
    else if W.contains p.name then do
      let tu ← setRemove st.toUse p.name
      pure { st with kwoparams := st.kwoparams ++ [p.withKind .ko],
                     kwopos := st.kwopos ++ [(i, p)], toUse := tu }
    else pure { st with foundPok := true, params := st.params ++ [p] }
  else do
    let tu ←
      (if st.toUse.contains p.name then
        if p.kind = .po && P.contains p.name then setRemove st.toUse p.name
        else if p.kind = .ko && W.contains p.name then setRemove st.toUse p.name
        else .error .valueError
       else pure st.toUse : Except Err (List Nat))
    let st := { st with toUse := tu }
    let st := if p.kind = .vk then { st with foundKws := true, params := st.params ++ st.kwoparams } else st
    pure { st with params := st.params ++ [p] }

def prepLoop (P W : List Nat) : PrepState → Nat → List Param → Except Err PrepState
  | st, _, [] => .ok st
  | st, i, p :: ps => do
    let st ← prepStep P W st i p
    prepLoop P W st (i + 1) ps

def dedup (l : List Nat) : List Nat := l.foldl (fun acc x => if acc.contains x then acc else acc ++ [x]) []

/-- `_PokTranslator._prepare`: the advertised parameters and `kwopos`.
    `P` = posoarg_names, `W` = kwoarg_names (sets). -/
def prepare (F : List Param) (P W : List Nat) : Except Err (List Param × List (Nat × Param)) := do
  if P.any (fun x => W.contains x) then .error .valueError
  let st ← prepLoop P W { toUse := dedup (P ++ W) } 0 F
  let params := if st.foundKws then st.params else st.params ++ st.kwoparams
  if !st.toUse.isEmpty then .error .valueError
  validate params             -- `sig.replace(parameters=params)`
  pure (params, st.kwopos)

/-- what `_prepare` stores as the wrapper object's `__signature__`: the advertised parameters with the
    function's provenance, in which the wrapper object (`self`) replaces the function (`f`) in both maps:
    `sig.replace(parameters=params, sources=copy_sources(sig.sources, {self.func: self}))` -/
def prepareSig (sig : USig) (f self : Nat) (P W : List Nat) : Except Err USig := do
  let r ← prepare sig.params P W
  pure { sig with params := r.1, src := swapSrcs f self sig.src, depths := swapDepths f self sig.depths }

/-- `list.insert(pos, x)` (only ever called with pos < len) -/
def listInsert (l : List Nat) (pos : Nat) (x : Nat) : List Nat := l.take pos ++ [x] ++ l.drop pos

/-- the loop of `_PokTranslator.__call__` over `kwopos` -/
def translateLoop : List (Nat × Param) → List Nat → List (Nat × Nat) → List Nat →
    (List Nat × List (Nat × Nat) × List Nat)
  | [], args, kwargs, missing => (args, kwargs, missing)
  | (pos, p) :: rest, args, kwargs, missing =>
    match dget kwargs p.name with
    | some v =>
      if pos < args.length then translateLoop rest (listInsert args pos v) (dpop kwargs p.name) missing
      else translateLoop rest args kwargs missing
    | none =>
      match p.dflt with
      | none => translateLoop rest args kwargs (missing ++ [p.name])
      | some d =>
        if pos < args.length then translateLoop rest (listInsert args pos d) kwargs missing
        else translateLoop rest args kwargs missing

/-- `_PokTranslator.__call__(*args, **kwargs)` up to the final `self.func(*args, **kwargs)`;
    `none` = TypeError -/
def translateCall (P : List Nat) (kwopos : List (Nat × Param)) (args : List Nat)
    (kwargs : List (Nat × Nat)) : Option (List Nat × List (Nat × Nat)) :=
  if kwargs.any (fun kv => P.contains kv.1) then none else
  let (args, kwargs, missing) := translateLoop kwopos args kwargs []
  if !missing.isEmpty then none else some (args, kwargs)

/-- the decorated callable: translate, then call the function -/
def decoratedCall (F : List Param) (P : List Nat) (kwopos : List (Nat × Param)) (args : List Nat)
    (kwargs : List (Nat × Nat)) : Option Bound :=
  match translateCall P kwopos args kwargs with
  | none => none
  | some (a, k) => bindCall F a k

/-- `_kwoargs_start(start, names, func)`: `start` and every positional-or-keyword parameter
    after it; ValueError when not found -/
def startNames (F : List Param) (start : Nat) (extra : List Nat) : Except Err (List Nat) :=
  let rec go : List Param → Bool → List Nat → (Bool × List Nat)
    | [], found, acc => (found, acc)
    | p :: ps, found, acc =>
      if p.kind = .pk then
        if found || p.name = start then go ps true (if acc.contains p.name then acc else acc ++ [p.name])
        else go ps found acc
      else if p.kind ≠ .po then (found, acc)
      else go ps found acc
  let (found, acc) := go F false (dedup extra)
  if found then .ok acc else .error .valueError

/-- `_posoargs_end(end, names, func)`: every positional-or-keyword parameter up to and including `end` -/
def endNames (F : List Param) (end_ : Nat) (extra : List Nat) : Except Err (List Nat) :=
  let rec go : List Param → Bool → List Nat → (Bool × List Nat)
    | [], found, acc => (found, acc)
    | p :: ps, found, acc =>
      if p.kind = .pk then
        let acc := if !found then (if acc.contains p.name then acc else acc ++ [p.name]) else acc
        go ps (found || p.name = end_) acc
      else if p.kind ≠ .po then (found, acc)
      else go ps found acc
  let (found, acc) := go F false (dedup extra)
  if found then .ok acc else .error .valueError

/-- `_autokwoargs(exceptions, func)`: every defaulted positional-or-keyword parameter not excepted;
    ValueError when an exception names nothing -/
def autoNames (F : List Param) (exceptions : List Nat) : Except Err (List Nat) :=
  let cands := F.filter (fun p => p.kind = .pk && p.dflt.isSome)
  let used := (dedup exceptions).filter (fun e => cands.any (fun p => p.name = e))
  if used.length ≠ (dedup exceptions).length then .error .valueError
  else .ok ((cands.filter (fun p => !exceptions.contains p.name)).map (·.name))

/-- `annotate(ret, **annotations)` applied to a signature -/
def annotate (F : List Param) (anns : List (Nat × Nat)) : Except Err (List Param) :=
  if anns.any (fun a => !(F.any (fun p => p.name = a.1))) then .error .valueError
  else .ok (F.map (fun p => match dget anns p.name with
    | some a => { p with ann := some a, uann := .pre a }
    | none => p))

end SV
