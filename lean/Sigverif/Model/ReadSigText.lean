/-
  Model/ReadSigText.lean — the first two steps of `support.read_sig`, at the level of characters:
  `sig_str.split(',')` and `re_paramname.match(param).groups()` with

      re_paramname = ^\s*([^:=]+)\s*(?::(.+?))?\s*(?:=(.+))?$

  The regular expression is modelled as what a backtracking matcher does: every quantifier offers its alternatives in
  the order Python's `re` tries them (greedy: longest first; lazy: shortest first; an optional group: with it first), and
  the first complete match wins.  Texts are `List Char`; `\s` is space or tab and `.` is any character (the texts of
  this layer have no line breaks).
-/
namespace SV

def isWs (c : Char) : Bool := c = ' ' || c = '\t'

/-- `str.split(',')` -/
def splitComma : List Char → List (List Char)
  | [] => [[]]
  | c :: cs =>
    match splitComma cs with
    | [] => [[c]]            -- unreachable: the result is never empty
    | w :: ws => if c = ',' then [] :: w :: ws else (c :: w) :: ws

/-- the number of leading characters satisfying `p` -/
def spanLen (p : Char → Bool) : List Char → Nat
  | [] => 0
  | c :: cs => if p c then spanLen p cs + 1 else 0

/-- greedy `X*` over a character class: the suffixes after taking k = max, max-1, …, lo characters -/
def greedy (p : Char → Bool) (lo : Nat) (s : List Char) : List (List Char × List Char) :=
  let m := spanLen p s
  ((List.range (m + 1 - lo)).map (fun j => m - j)).map (fun k => (s.take k, s.drop k))

/-- lazy `.+?`: k = 1, 2, …, |s| characters -/
def lazyDot (s : List Char) : List (List Char × List Char) :=
  (List.range s.length).map (fun j => (s.take (j + 1), s.drop (j + 1)))

/-- `(?:=(.+))?$` at the end: with the group first (`.+` must take everything, then `$`), then without -/
def tailDefault (s : List Char) : Option (Option (List Char)) :=
  match s with
  | '=' :: d => if d.isEmpty then none else some (some d)
  | [] => some none
  | _ => none

/-- `\s*(?:=(.+))?$` -/
def afterAnn (s : List Char) : Option (Option (List Char)) :=
  (greedy isWs 0 s).findSome? (fun (_, r) => tailDefault r)

/-- `(?::(.+?))?\s*(?:=(.+))?$` : the annotation group, then the rest -/
def annAndDefault (s : List Char) : Option (Option (List Char) × Option (List Char)) :=
  let withAnn : Option (Option (List Char) × Option (List Char)) :=
    match s with
    | ':' :: r => (lazyDot r).findSome? (fun (a, r') => (afterAnn r').map (fun d => (some a, d)))
    | _ => none
  match withAnn with
  | some x => some x
  | none => (afterAnn s).map (fun d => (none, d))

/-- `re_paramname.match(param).groups()`; `none` = no match (`.groups()` then raises AttributeError) -/
def matchParam (s : List Char) : Option (List Char × Option (List Char) × Option (List Char)) :=
  (greedy isWs 0 s).findSome? (fun (_, r1) =>
    (greedy (fun c => c ≠ ':' && c ≠ '=') 1 r1).findSome? (fun (name, r2) =>
      (greedy isWs 0 r2).findSome? (fun (_, r3) =>
        (annAndDefault r3).map (fun (a, d) => (name, a, d)))))

/-- what the loop of `read_sig` iterates over: the non-empty comma-separated parts, each taken apart -/
def splitParams (s : List Char) : List (Option (List Char × Option (List Char) × Option (List Char))) :=
  ((splitComma s).filter (fun w => !w.isEmpty)).map matchParam

end SV
