import Sigverif.Model.ReadSig
/-
  Model/ReadSigText.lean — the first two steps of `support.read_sig`, at the level of characters:
  `sig_str.split(',')` and `re_paramname.match(param).groups()` with

      re_paramname = ^\s*([^:=]+)\s*(?::(.+?))?\s*(?:=(.+))?$

  The regular expression is modelled as what a backtracking matcher does: every quantifier offers its alternatives in
  the order Python's `re` tries them (greedy: longest first; lazy: shortest first; an optional group: with it first), and
  the first complete match wins.  Texts are `List Char`; `\s` is space or tab and `.` is any character (the texts of
  this layer have no line breaks).
-/
namespace SV

def isWs (c : Char) : Bool := c = ' ' || c = '\t'

/-- `str.split(',')` -/
def splitComma : List Char → List (List Char)
  | [] => [[]]
  | c :: cs =>
    match splitComma cs with
    | [] => [[c]]            -- unreachable: the result is never empty
    | w :: ws => if c = ',' then [] :: w :: ws else (c :: w) :: ws

/-- the number of leading characters satisfying `p` -/
def spanLen (p : Char → Bool) : List Char → Nat
  | [] => 0
  | c :: cs => if p c then spanLen p cs + 1 else 0

/-- greedy `X*` over a character class: the suffixes after taking k = max, max-1, …, lo characters -/
def greedy (p : Char → Bool) (lo : Nat) (s : List Char) : List (List Char × List Char) :=
  let m := spanLen p s
  ((List.range (m + 1 - lo)).map (fun j => m - j)).map (fun k => (s.take k, s.drop k))

/-- lazy `.+?`: k = 1, 2, …, |s| characters -/
def lazyDot (s : List Char) : List (List Char × List Char) :=
  (List.range s.length).map (fun j => (s.take (j + 1), s.drop (j + 1)))

/-- `(?:=(.+))?$` at the end: with the group first (`.+` must take everything, then `$`), then without -/
def tailDefault (s : List Char) : Option (Option (List Char)) :=
  match s with
  | '=' :: d => if d.isEmpty then none else some (some d)
  | [] => some none
  | _ => none

/-- `\s*(?:=(.+))?$` -/
def afterAnn (s : List Char) : Option (Option (List Char)) :=
  (greedy isWs 0 s).findSome? (fun (_, r) => tailDefault r)

/-- `(?::(.+?))?\s*(?:=(.+))?$` : the annotation group, then the rest -/
def annAndDefault (s : List Char) : Option (Option (List Char) × Option (List Char)) :=
  let withAnn : Option (Option (List Char) × Option (List Char)) :=
    match s with
    | ':' :: r => (lazyDot r).findSome? (fun (a, r') => (afterAnn r').map (fun d => (some a, d)))
    | _ => none
  match withAnn with
  | some x => some x
  | none => (afterAnn s).map (fun d => (none, d))

/-- `re_paramname.match(param).groups()`; `none` = no match (`.groups()` then raises AttributeError) -/
def matchParam (s : List Char) : Option (List Char × Option (List Char) × Option (List Char)) :=
  (greedy isWs 0 s).findSome? (fun (_, r1) =>
    (greedy (fun c => c ≠ ':' && c ≠ '=') 1 r1).findSome? (fun (name, r2) =>
      (greedy isWs 0 r2).findSome? (fun (_, r3) =>
        (annAndDefault r3).map (fun (a, d) => (name, a, d)))))

/-- what the loop of `read_sig` iterates over: the non-empty comma-separated parts, each taken apart -/
def splitParams (s : List Char) : List (Option (List Char × Option (List Char) × Option (List Char))) :=
  ((splitComma s).filter (fun w => !w.isEmpty)).map matchParam


/-! ### from the three groups to a piece (`re_posoarg`, `lstrip('*')`, the comparisons on `arg`) -/

/-- `arg.lstrip('*')` and how many stars went -/
def lstripStars : List Char → Nat × List Char
  | '*' :: cs => let (k, r) := lstripStars cs; (k + 1, r)
  | cs => (0, cs)

/-- `re_posoarg = ^<(.*)>$` -/
def chevronInner (arg : List Char) : Option (List Char) :=
  match arg with
  | '<' :: rest => if rest.getLast? = some '>' then some rest.dropLast else none
  | _ => none

/-- names and texts become tokens through an encoding `enc` (any injective one; the driver uses positional notation) -/
def toPiece (enc : List Char → Nat) (g : List Char × Option (List Char) × Option (List Char)) : Option Piece :=
  let (arg, ann, dflt) := g
  let a := ann.map enc
  let d := dflt.map enc
  match chevronInner arg with
  | some inner =>
    -- `name = arg = inner`: the piece-level model covers an ordinary name between the chevrons
    if inner = ['/'] || inner.head? = some '*' then none else some (.chev (enc inner) a d)
  | none =>
    if arg = ['/'] then (if a.isNone && d.isNone then some .slash else none)
    else
      let (k, name) := lstripStars arg
      if k = 0 then some (.plain (enc name) a d)
      else if name.isEmpty then (if a.isNone && d.isNone then some .bare else none)
      else if k = 1 then some (.star false (enc name) a d)
      else if k = 2 then some (.star true (enc name) a d)
      else none

/-- the whole of `read_sig` from the text (`none`: a part does not match `re_paramname`, which makes `read_sig` raise
    AttributeError, or a part is outside what the piece-level model covers) -/
def piecesOfText (enc : List Char → Nat) (text : List Char) : Option (List Piece) := do
  let groups ← (splitParams text).mapM id
  groups.mapM (toPiece enc)

def readSigText (enc : List Char → Nat) (ua upo ukw : Bool) (text : List Char) : Option RS :=
  (piecesOfText enc text).map (readSig ua upo ukw)

/-- the parameters of `s(text, …)`, from the text -/
def sParamsText (enc : List Char → Nat) (ua upo ukw : Bool) (text : List Char) : Option (Except SErr (List Param)) :=
  (piecesOfText enc text).map (sParams ua upo ukw)

/-- positional notation over the code points: injective -/
def encText (cs : List Char) : Nat := cs.foldl (fun a c => a * 1114112 + c.toNat + 1) 0

/-! ### texts with EMPTY parts (`a,,b`, a leading or trailing comma)

`read_sig` skips an empty part (`if not param: continue`) but `enumerate` has counted it: the indices that
`chevron_index` and `default_index` remember are positions in the UNFILTERED split.  On texts without empty
parts — every text the theorems speak of — this is `readSigText`; on the others the loop below keeps the
real index.  The driver runs `readSigTextIdx`. -/

/-- the loop over the unfiltered parts: `none` = an empty part (skipped, counted) -/
def rsLoopIdx (ua upo ukw : Bool) : RS → Nat → List (Option Piece) → RS
  | st, _, [] => st
  | st, i, none :: ps => rsLoopIdx ua upo ukw st (i + 1) ps
  | st, i, some p :: ps => rsLoopIdx ua upo ukw (rsStep ua upo ukw st i p) (i + 1) ps

def readSigTextIdx (enc : List Char → Nat) (ua upo ukw : Bool) (text : List Char) : Option RS :=
  let parts := splitComma text
  if parts.all (fun w => !w.isEmpty) then readSigText enc ua upo ukw text
  else do
    let ps ← parts.mapM (fun w =>
      if w.isEmpty then some (none : Option Piece)
      else (matchParam w).bind (fun g => (toPiece enc g).map some))
    let st := rsLoopIdx ua upo ukw {} 0 ps
    let st := rsChevFix upo st
    some { st with names := st.names ++ st.va.toList ++ st.vk.toList }

theorem readSigTextIdx_eq (enc : List Char → Nat) (ua upo ukw : Bool) (text : List Char)
    (h : (splitComma text).all (fun w => !w.isEmpty) = true) :
    readSigTextIdx enc ua upo ukw text = readSigText enc ua upo ukw text := by
  simp [readSigTextIdx, h]

end SV
