/-
  Model/Support.lean — sigtools.support: `bind_callsig`, `sort_callsigs`, `make_up_callsigs`.
-/
import Sigverif.Model.Call
namespace SV

/-- the positional loop of `bind_callsig`:
    `for (i, posarg), param in zip(enumerate(args_, 1), params)` with its `else` clause.
    Returns the assignments, the `*args` tuple if reached, or TypeError (`none`). -/
def bcsPos : List Param → List Nat → List (Nat × Nat) →
    Option (List (Nat × Nat) × Option (Nat × List Nat))
  | _, [], acc => some (acc, none)                       -- args exhausted: args[:i] == args
  | [], _ :: _, _ => none                                -- params exhausted first: too many positional
  | p :: ps, a :: as, acc =>
    if p.kind = .po || p.kind = .pk then bcsPos ps as (acc ++ [(p.name, a)])
    else if p.kind = .vp then some (acc, some (p.name, a :: as))
    else none                                            -- too many positional arguments

/-- the keyword loop of `bind_callsig` -/
def bcsKw (s : List Param) (vk : Option Param) :
    List (Nat × Nat) → List (Nat × Nat) → Option (Nat × List Nat) → List (Nat × Nat) →
    Option (List (Nat × Nat) × List (Nat × Nat))
  | [], assigned, _, extra => some (assigned, extra)
  | (k, v) :: rest, assigned, va, extra =>
    let fallThrough : Option (List (Nat × Nat) × List (Nat × Nat)) :=
      if vk.isSome then bcsKw s vk rest assigned va (extra ++ [(k, v)]) else none
    match s.find? (fun p => p.name = k) with
    | some p =>
      if p.kind = .po then none                          -- 'positional-only'
      else if p.kind = .pk || p.kind = .ko then
        -- `if key in assigned`: the star parameters' names are keys of `assigned` too
        if dhas assigned k || (va.map (·.1) = some k) || (vk.map (·.name) = some k) then none
        else bcsKw s vk rest (assigned ++ [(k, v)]) va extra
      else fallThrough
    | none => fallThrough

/-- `bind_callsig(sig, args, kwargs)`; `none` = TypeError -/
def bindCallsig (s : List Param) (args : List Nat) (kwargs : List (Nat × Nat)) : Option Bound :=
  let vk := s.find? (fun p => p.kind = .vk)
  match bcsPos s args [] with
  | none => none
  | some (assigned, va) =>
    match bcsKw s vk kwargs assigned va [] with
    | none => none
    | some (assigned, extra) =>
      match fillDefaults (s.filter isNamed) assigned with
      | none => none
      | some named =>
        some { named := named,
               va := if hasVa s then some (match va with | some (_, t) => t | none => []) else none,
               vk := if vk.isSome then some extra else none }

/-- `sort_callsigs(sig, callsigs)` → (valid with bound, invalid) -/
def sortCallsigs (s : List Param) (cs : List (List Nat × List (Nat × Nat))) :
    List (List Nat × List (Nat × Nat) × Bound) × List (List Nat × List (Nat × Nat)) :=
  cs.foldl (fun acc c =>
    match bindCallsig s c.1 c.2 with
    | some b => (acc.1 ++ [(c.1, c.2, b)], acc.2)
    | none => (acc.1, acc.2 ++ [c])) ([], [])

/-- all sublists in `itertools.combinations` order is not needed for the property; we use the
    set of all sublists -/
def sublists : List Nat → List (List Nat)
  | [] => [[]]
  | x :: xs => let r := sublists xs; r ++ r.map (x :: ·)

/-- `make_up_callsigs(sig, extra)`: every positional prefix of `names ++ extras` combined with
    every keyword subset of `names ++ extras ++ star names` (values = names) -/
def makeUpCallsigs (s : List Param) (extras : List Nat) : List (List Nat × List Nat) :=
  let nms := (s.filter isNamed |>.filter (fun p => p.kind = .po)).map (·.name)
          ++ (s.filter (fun p => p.kind = .pk)).map (·.name)
          ++ (s.filter (fun p => p.kind = .ko)).map (·.name) ++ extras
  let prefixes := (List.range (nms.length + 1)).map (fun i => nms.take i)
  let kwn := nms ++ (s.filter (fun p => p.kind = .vp)).map (·.name)
                 ++ (s.filter (fun p => p.kind = .vk)).map (·.name)
  prefixes.flatMap (fun a => (sublists kwn).map (fun k => (a, k)))

end SV
