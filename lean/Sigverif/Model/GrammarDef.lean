/-
  Model/GrammarDef.lean — nested function definitions are NAMED (`def sub(): …`), and since the
  repair D85 the real visitor treats the `def` statement as what it is: a binding of that name
  (a store) followed by the function.  `harness/treeser.py` therefore serialises a nested
  `FunctionDef` as `other [name sub store, fdef …]`; `renderNamed sub p` is that image of a
  program of the grammar (every nested definition is called `sub`), and it — not `render p` —
  is what the driver prints for op `render` and walks for `pvisit` / `pauto…`.

  `dsProg sub p` is the meaning of the `def` statement in the vocabulary of the grammar itself:
  `def sub(): body`  =  `sub = <object>` ; `<anonymous function> body`, where the assignment is a
  `rebind` when `sub` is the name of a star parameter and an `unrelated` assignment otherwise.
  `Lemmas/C05Def.lean` proves that the walker cannot tell `renderNamed sub p` from
  `render (dsProg sub p)`.
-/
import Sigverif.Model.Grammar
namespace SV

/-- `other [name sub store, fdef …]` -/
def namedDef (sub : Nat) (f : Tree) : Tree := .other (.cons (.name sub .store) (.cons f .nil))

mutual
  def renderDS (sub va vk : Nat) : Stmt → Tree
    | .block body => .other (.cons constT (renderDSL sub va vk body))
    | .nested body => namedDef sub (.fdef [] [] [] none none (renderNL va vk body))
    | .nonlocalRebind s => namedDef sub (renderS va vk (.nonlocalRebind s))
    | .fwd callee npos kws uva uvk target => renderS va vk (.fwd callee npos kws uva uvk target)
    | .rebind s => renderS va vk (.rebind s)
    | .mutate s m => renderS va vk (.mutate s m)
    | .delete s => renderS va vk (.delete s)
    | .handOver s h => renderS va vk (.handOver s h)
    | .decoy h n => renderS va vk (.decoy h n)
    | .unrelated x => renderS va vk (.unrelated x)
  def renderDSL (sub va vk : Nat) : StmtList → TreeList
    | .nil => .nil
    | .cons s rest => .cons (renderDS sub va vk s) (renderDSL sub va vk rest)
end

/-- the wrapper as the real visitor sees it: nested definitions named `sub` -/
def renderNamed (sub : Nat) (p : Prog) : Tree :=
  .fdef [] p.params [] (some p.va) (some p.vk) (renderDSL sub p.va p.vk p.body)

/-- `sub = <the function object>` -/
def nameStmt (sub va vk : Nat) : Stmt :=
  if sub = va then .rebind .A else if sub = vk then .rebind .K else .unrelated sub

mutual
  def dsS (sub va vk : Nat) : Stmt → Stmt
    | .block body => .block (dsSL sub va vk body)
    | s => s
  /-- the `def` statements of the body written out as assignment + anonymous function -/
  def dsSL (sub va vk : Nat) : StmtList → StmtList
    | .nil => .nil
    | .cons (.nested body) rest => .cons (nameStmt sub va vk) (.cons (.nested body) (dsSL sub va vk rest))
    | .cons (.nonlocalRebind s) rest =>
      .cons (nameStmt sub va vk) (.cons (.nonlocalRebind s) (dsSL sub va vk rest))
    | .cons (.block body) rest => .cons (.block (dsSL sub va vk body)) (dsSL sub va vk rest)
    | .cons (.fwd callee npos kws uva uvk target) rest =>
      .cons (.fwd callee npos kws uva uvk target) (dsSL sub va vk rest)
    | .cons (.rebind s) rest => .cons (.rebind s) (dsSL sub va vk rest)
    | .cons (.mutate s m) rest => .cons (.mutate s m) (dsSL sub va vk rest)
    | .cons (.delete s) rest => .cons (.delete s) (dsSL sub va vk rest)
    | .cons (.handOver s h) rest => .cons (.handOver s h) (dsSL sub va vk rest)
    | .cons (.decoy h n) rest => .cons (.decoy h n) (dsSL sub va vk rest)
    | .cons (.unrelated x) rest => .cons (.unrelated x) (dsSL sub va vk rest)
end

def dsProg (sub : Nat) (p : Prog) : Prog := { p with body := dsSL sub p.va p.vk p.body }

end SV
