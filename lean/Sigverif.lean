import Sigverif.Model.Basic
import Sigverif.Model.Bind
import Sigverif.Model.Sort
import Sigverif.Model.Merge
import Sigverif.Model.Embed
import Sigverif.Model.Mask
import Sigverif.Model.Protocol
import Sigverif.Props.Defs
