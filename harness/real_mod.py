"""harness/real_mod.py — real-side adapters for sigtools.modifiers and sigtools.support
(value-level calls).  Values: positional arguments are tokens 100+i, keyword values 200+name id,
defaults are the small default tokens of the descriptors."""
import functools, inspect, itertools, warnings
from . import core
from .core import S
from sigtools import modifiers, support, specifiers, signatures

SELF_TOK = 777


class _Self:
    pass


class _FalsySelf(_Self):
    """a receiver that is false in a boolean context (an empty container, say)"""
    def __bool__(self):
        return False

    def __len__(self):
        return 0


def ret_body(params):
    items = ', '.join('%r: %s' % (p[0], p[0]) for p in params)
    return 'return {%s}' % items


@functools.lru_cache(maxsize=20000)
def base_func(params):
    return core.make_def(params, body=ret_body(params))


def canon_bound(params, d):
    """dict returned by a function made with ret_body -> ('bound', named, va, vk)"""
    named, va, vk = [], None, None
    for p in params:
        v = d[p[0]]
        if p[1] == 'vp':
            va = tuple(_val(x) for x in v)
        elif p[1] == 'vk':
            vk = tuple(sorted((core.NAMES.id(k), _val(x)) for k, x in v.items()))
        else:
            named.append((core.NAMES.id(p[0]), _val(v)))
    return ('bound', tuple(sorted(named)), va, vk)


def _val(v):
    if v is None:
        return 0
    if isinstance(v, _Self):
        return SELF_TOK
    return v


def call_values(args, kw):
    return [a for a in args], {k: v for k, v in kw}


def real_bindcall(req):
    _, args, kw, ps = req
    f = base_func(tuple(ps))
    a, k = call_values(args, kw)
    try:
        d = f(*a, **k)
    except TypeError:
        return ('typeerror',)
    return canon_bound(ps, d)


def real_bindcallsig(req):
    _, args, kw, ps = req
    sig = core.mk_sig(core.D(ps))
    a, k = call_values(args, kw)
    try:
        d = support.bind_callsig(sig, tuple(a), k)
    except TypeError:
        return ('typeerror',)
    return canon_bound(ps, d)


@functools.lru_cache(maxsize=20000)
def dec_obj(kind, names, **kw):
    """decorator objects are made once per selection and reused for every function they are applied to
    (a decorator kept in a variable and applied to a family of functions)"""
    return getattr(modifiers, kind)(*names, **dict(kw))


@functools.lru_cache(maxsize=20000)
def auto_dec(ex):
    return modifiers.autokwoargs(exceptions=list(ex))


@functools.lru_cache(maxsize=20000)
def decorated_stacked(ps, P, W, order):
    """the two selections applied by two stacked decorators (in either order) instead of one translator"""
    f = base_func(tuple(ps))
    try:
        with warnings.catch_warnings():
            warnings.simplefilter('ignore')
            if order == 'pw':
                dec = dec_obj('kwoargs', W)(dec_obj('posoargs', P)(f))
            else:
                dec = dec_obj('posoargs', P)(dec_obj('kwoargs', W)(f))
    except Exception as e:  # noqa
        return core.canon_exc(e)
    return ('ok', dec, None)


def real_deccall_stacked(req):
    op, order, P, W, args, kw, ps = req
    r = decorated_stacked(tuple(ps), tuple(P), tuple(W), order)
    if r[0] == 'err':
        return r
    a, k = call_values(args, kw)
    try:
        d = r[1](*a, **k)
    except TypeError:
        return ('typeerror',)
    return canon_bound(ps, d)


@functools.lru_cache(maxsize=20000)
def decorated(ps, P, W, method=False, falsy=False, annotated=False):
    """-> ('ok', callable, advertised canonical params) | ('err', cls)"""
    if method:
        f = base_func((core.P('self', 'pk'),) + tuple(ps))
        # the returned dict must not contain self: wrap by a class below
    else:
        f = base_func(tuple(ps))
    if annotated:
        # annotate() writes into the function's __annotations__: give this variant a function of its own
        import types as _types
        g = _types.FunctionType(f.__code__, f.__globals__, f.__name__, f.__defaults__, f.__closure__)
        g.__kwdefaults__ = dict(f.__kwdefaults__) if f.__kwdefaults__ else None
        f = g
    try:
        with warnings.catch_warnings():
            warnings.simplefilter('ignore')
            if P and W:
                dec = modifiers._PokTranslator(f, posoargs=P, kwoargs=W)
            elif P:
                dec = dec_obj('posoargs', P)(f)
            elif W:
                dec = dec_obj('kwoargs', W)(f)
            else:
                dec = f
    except Exception as e:  # noqa
        return core.canon_exc(e)
    if annotated and isinstance(dec, modifiers._PokTranslator):
        # annotate() applied on top re-prepares the translators underneath: call behaviour must not change
        first = next((q[0] for q in ps if q[1] in ('po', 'pk', 'ko')), None)
        if first is not None:
            with warnings.catch_warnings():
                warnings.simplefilter('ignore')
                dec = modifiers.annotate(**{first: 42})(dec)
    if method:
        cls = type('C', (_FalsySelf if falsy else _Self,), {'m': dec})
        return ('ok', cls, None)
    return ('ok', dec, None)


def real_deccall(req):
    op, P, W, args, kw, ps = req
    method = op == 'deccallm'
    variant = (len(args) + 2 * len(kw) + len(ps)) % 4       # plain / falsy receiver / annotate on top / both
    r = decorated(tuple(ps), tuple(P), tuple(W), method, falsy=method and variant in (1, 3), annotated=variant in (2, 3))
    if r[0] == 'err':
        return r
    a, k = call_values(args, kw)
    try:
        if method:
            if (len(a) + len(k)) % 2:
                d = r[1].m(r[1](), *a, **k)      # through the class, receiver passed by hand
            else:
                d = r[1]().m(*a, **k)
            d = {x: v for x, v in d.items() if x != 'self'}
        else:
            d = r[1](*a, **k)
    except TypeError:
        return ('typeerror',)
    return canon_bound(ps, d)


@functools.lru_cache(maxsize=20000)
def decorated_form(ps, form, st, extra):
    f = base_func((core.P('self', 'pk'),) + tuple(ps))
    try:
        with warnings.catch_warnings():
            warnings.simplefilter('ignore')
            if form == 'end':
                dec = modifiers.posoargs(*extra, end=st)(f)
            else:
                dec = modifiers.kwoargs(*extra, start=st)(f)
    except Exception as e:  # noqa
        return core.canon_exc(e)
    return ('ok', type('C', (_Self,), {'m': dec}), None)


def real_deccall_form(req):
    op, st, extra, args, kw, ps = req
    r = decorated_form(tuple(ps), 'end' if op == 'deccallendm' else 'start', st, tuple(extra))
    if r[0] == 'err':
        return r
    a, k = call_values(args, kw)
    try:
        d = r[1]().m(*a, **k)
        d = {x: v for x, v in d.items() if x != 'self'}
    except TypeError:
        return ('typeerror',)
    return canon_bound(ps, d)


@functools.lru_cache(maxsize=20000)
def decorated_form2(ps, form, order, st, other):
    """posoargs(end=st) stacked with kwoargs(*other) (form 'end'), or kwoargs(start=st) stacked with
    posoargs('self', *other) (form 'start'), in either order, on a method"""
    f = base_func((core.P('self', 'pk'),) + tuple(ps))
    try:
        with warnings.catch_warnings():
            warnings.simplefilter('ignore')
            if form == 'end':
                a, b = modifiers.posoargs(end=st), modifiers.kwoargs(*other)
            else:
                a, b = modifiers.kwoargs(start=st), modifiers.posoargs('self', *other)
            dec = b(a(f)) if order == 'form-inner' else a(b(f))
    except Exception as e:  # noqa
        return core.canon_exc(e)
    return ('ok', type('C', (_Self,), {'m': dec}), None)


def real_deccall_form2(req):
    op, order, st, other, args, kw, ps = req
    r = decorated_form2(tuple(ps), 'end' if op == 'deccallend2m' else 'start', order, st, tuple(other))
    if r[0] == 'err':
        return r
    a, k = call_values(args, kw)
    try:
        d = r[1]().m(*a, **k)
        d = {x: v for x, v in d.items() if x != 'self'}
    except TypeError:
        return ('typeerror',)
    return canon_bound(ps, d)


def real_prepare(req):
    _, P, W, ps = req
    r = decorated(tuple(ps), tuple(P), tuple(W))
    if r[0] == 'err':
        return r
    with warnings.catch_warnings():
        warnings.simplefilter('ignore')
        sig = specifiers.signature(r[1])
        isig = inspect.signature(r[1])
    a = tuple(core.canon_param(p)[:3] for p in sig.parameters.values())
    b = tuple((core.NAMES.id(p.name), core.KIND_NAME[p.kind], None if p.default is p.empty else core.dflt_tok(p.default))
              for p in isig.parameters.values())
    if a != b:
        return ('ok', ('inspect-differs', a, b))
    return ('ok', tuple(x + (None, 'e') for x in a))


def real_preparesig(req):
    """the signature the wrapper object advertises, provenance included: a FRESH function (callable 1) decorated with the
    selection; the wrapper object is registered as callable 7"""
    P, W, ps = req[1:4]
    stacked = len(req) > 4
    f = core.make_def(tuple(ps), body='return None  # preparesig')
    core.register_callable(f, 1)
    try:
        with warnings.catch_warnings():
            warnings.simplefilter('ignore')
            if P and W and stacked:
                d = modifiers.kwoargs(*W)(modifiers.posoargs(*P)(f))
            elif P and W:
                d = modifiers._PokTranslator(f, posoargs=P, kwoargs=W)     # one wrapper object carrying both selections
            elif P:
                d = modifiers.posoargs(*P)(f)
            elif W:
                d = modifiers.kwoargs(*W)(f)
            else:
                return ('err', 'ValueError')        # the decorators refuse an empty selection; the model's prepare accepts it
    except Exception as e:  # noqa
        return core.canon_exc(e)
    core.register_callable(d, 7)
    return core.run_real(specifiers.signature, d)


def real_retrievebound(req):
    """signatures.signature of the bound method of a function whose stored __signature__ is the given (upgraded) signature,
    provenance included - what modifiers.annotate, or `f.__signature__ = sigtools.signature(g)`, leave on a function"""
    import types as _types
    d = req[1]
    f0 = core.make_def(tuple(d['params']), body='return None  # retrievebound')
    f = _types.FunctionType(f0.__code__, f0.__globals__, f0.__name__, f0.__defaults__, f0.__closure__)
    f.__kwdefaults__ = dict(f0.__kwdefaults__) if f0.__kwdefaults__ else None
    f.__signature__ = core.mk_sig(d)
    cls = type('C', (object,), {'m': f})
    return core.run_real(signatures.signature, cls().m)


def real_names(req):
    op = req[0]
    try:
        if op == 'autonames':
            _, ex, ps = req
            f = base_func(tuple(ps))
            dec = auto_dec(tuple(ex))(f) if ex else modifiers.autokwoargs(f)
        else:
            _, st, extra, ps = req
            f = base_func(tuple(ps))
            if op == 'startnames':
                dec = dec_obj('kwoargs', tuple(extra), start=st)(f)
            else:
                dec = dec_obj('posoargs', tuple(extra), end=st)(f)
    except ValueError as e:
        return core.canon_exc(e)
    if isinstance(dec, modifiers._PokTranslator):
        nm = dec.kwoarg_names if op != 'endnames' else dec.posoarg_names
    else:
        nm = ()
    return ('ok', tuple(sorted(core.NAMES.id(n) for n in nm)))


def real_makeup(req):
    _, nextra, ps = req
    sig = core.mk_sig(core.D(ps))
    cs = support.make_up_callsigs(sig, extra=nextra)

    def nid(n):
        if n.startswith('__make_up_callsigs__extra_'):
            return 900 + int(n.rsplit('_', 1)[1])
        return core.NAMES.id(n)
    strs = sorted('%s|%s' % ('.'.join(str(nid(x)) for x in a) or '_',
                             '.'.join(str(x) for x in sorted(nid(x) for x in k)) or '_') for a, k in cs)
    return ('ok', len(cs), ';'.join(strs))


OPS = {'bindcall': real_bindcall, 'bindcallsig': real_bindcallsig, 'deccall': real_deccall, 'deccallm': real_deccall,
       'prepare': real_prepare, 'startnames': real_names, 'endnames': real_names, 'autonames': real_names,
       'makeup': real_makeup, 'deccallendm': real_deccall_form, 'deccallstartm': real_deccall_form,
       'deccallst': real_deccall_stacked, 'deccallend2m': real_deccall_form2, 'deccallstart2m': real_deccall_form2}


# ----------------------------------------------------------------------------- functools.partial (C19)
def make_partial(ps, n, kw):
    f = core.make_def(tuple(ps), body=ret_body(ps) + '  # %d' % 0)
    core.register_callable(f, 1)
    p = functools.partial(f, *[100 + i for i in range(n)], **{k: core.dflt_obj(v) for k, v in kw})
    core.register_callable(p, 2)
    return f, p


def real_partialsig(req):
    import sigtools
    _, n, kw, ps = req
    f, p = make_partial(ps, n, kw)
    r1 = core.run_real(signatures.signature, p)
    r2 = core.run_real(sigtools.signature, p)
    if r1 != r2:
        return ('ok', ('plain-and-auto-differ', r1, r2), (), (), None, 'e', ())
    return r1


OPS['partialsig'] = real_partialsig
OPS['preparesig'] = real_preparesig
OPS['retrievebound'] = real_retrievebound
