"""harness/real_r9.py — probes added in session 9 (run on the real code only; answer ('ok', problems, label))

  pok_receiver   C12: the call translation of kwoargs / posoargs / autokwoargs for functions whose parameters are named like the
                 translator's own locals (`self`, `args`, `kwargs`, `func`, …) and for decorated callables without `__name__`
                 (functools.partial objects, instances with `__call__`): the decorated callable accepts exactly the calls its
                 advertised signature binds, delivers the values there, and rejects the rest with TypeError (D83, D84)
"""
import functools
import inspect
import itertools
import warnings

RT = {}


def _try(fn):
    try:
        return ('ok', fn())
    except BaseException as e:   # noqa
        return ('raised', type(e).__name__)


def _calls(names):
    """call shapes with distinguishable values over the names: k positionals, then every subset of the others by keyword,
    plus one call that leaves a name out and one with a foreign keyword"""
    n = len(names)
    for k in range(0, n + 1):
        rest = names[k:]
        for r in range(0, len(rest) + 1):
            for kws in itertools.combinations(rest, r):
                yield tuple('P%d' % i for i in range(k)), {kw: 'K' + kw for kw in kws}
    yield tuple('P%d' % i for i in range(n + 1)), {}
    yield (), {'zz_foreign': 1}


def rt_pok_receiver(req):
    from sigtools import modifiers
    problems = []
    odd_names = ('self', 'args', 'kwargs', 'func', 'cls', 'intersect', 'missing')
    with warnings.catch_warnings():
        warnings.simplefilter('ignore')
        for n1, n2 in itertools.permutations(odd_names, 2):
            if (odd_names.index(n1) + odd_names.index(n2)) % 3 and 'self' not in (n1, n2):
                continue
            ns = {}
            exec('def f(%s, %s, c=3): return {%r: %s, %r: %s, "c": c}' % (n1, n2, n1, n1, n2, n2), ns)
            f = ns['f']
            decos = (('kwoargs(%r)' % n2, lambda f: modifiers.kwoargs(n2)(f)), ('kwoargs(%r, "c")' % n1, lambda f: modifiers.kwoargs(n1, 'c')(f)),
                     ('posoargs(%r)' % n1, lambda f: modifiers.posoargs(n1)(f)), ('autokwoargs', modifiers.autokwoargs),
                     ('kwoargs(start=%r)' % n2, lambda f: modifiers.kwoargs(start=n2)(f)), ('posoargs(end=%r)' % n1, lambda f: modifiers.posoargs(end=n1)(f)))
            for dl, deco in decos:
                g = _try(lambda: deco(f))
                if g[0] != 'ok':
                    problems.append('odd-name-decoration: %s over def f(%s, %s, c=3) raised %s' % (dl, n1, n2, g[1]))
                    continue
                g = g[1]
                sig = inspect.signature(g)
                for args, kw in _calls((n1, n2, 'c')):
                    want = _try(lambda: dict(sig.bind(*args, **kw).arguments))
                    if want[0] == 'ok':
                        want[1].setdefault('c', 3)
                        want = ('ok', want[1])
                    else:
                        want = ('raised', 'TypeError')
                    got = _try(lambda: g(*args, **kw))
                    if got != want:
                        problems.append('odd-name-call: %s over def f(%s, %s, c=3), advertised %s: call(*%r, **%r) -> %s, the advertised signature says %s' % (
                            dl, n1, n2, sig, args, kw, got, want))
                        break
        # decorated callables that have no __name__
        def base(a, b, c=3): return {'a': a, 'b': b, 'c': c}

        class Obj:
            def __call__(self, a, b, c=3): return {'a': a, 'b': b, 'c': c}

        class Meth:
            def m(self, a, b, c=3): return {'a': a, 'b': b, 'c': c}
        for ol, obj in (('functools.partial(base)', functools.partial(base)), ('an instance with __call__', Obj()),
                        ('a bound method', Meth().m), ('partial(base, c=5)', functools.partial(base, c=5))):
            dflt_c = 5 if 'c=5' in ol else 3
            for dl, deco in (('kwoargs("b")', modifiers.kwoargs('b')), ('kwoargs("b", "c")', modifiers.kwoargs('b', 'c')), ('posoargs("a")', modifiers.posoargs('a')),
                             ('kwoargs(start="b")', modifiers.kwoargs(start='b'))):
                g = _try(lambda: deco(obj))
                if g[0] != 'ok':
                    problems.append('nameless-decoration: %s over %s raised %s' % (dl, ol, g[1]))
                    continue
                g = g[1]
                sig = inspect.signature(g)
                for args, kw in _calls(('a', 'b', 'c')):
                    want = _try(lambda: dict(sig.bind(*args, **kw).arguments))
                    if want[0] == 'ok':
                        want[1].setdefault('c', dflt_c)
                        want = ('ok', want[1])
                    else:
                        want = ('raised', 'TypeError')
                    got = _try(lambda: g(*args, **kw))
                    if got != want:
                        problems.append('nameless-call: %s over %s, advertised %s: call(*%r, **%r) -> %s, the advertised signature says %s' % (
                            dl, ol, sig, args, kw, got, want))
                        break
    odd = [p for p in problems if p.startswith('odd-')][:3]
    return ('ok', tuple(odd + [p for p in problems if not p.startswith('odd-')][:3]), 'pok_receiver')


RT['pok_receiver'] = rt_pok_receiver


def rt_receiver_names(req):
    """C04 / C13: the wrapper objects sigtools puts around a function (`emulate=True` declarations, `wrappers.decorator`)
    take their own receiver out of the call: a parameter of the function that is called `self` (or `args`, `kwargs`, `func`,
    `wrapped`) is passed by name exactly as the advertised signature says (remark of a round-9 sub-agent; D86, D87)"""
    import sigtools
    from sigtools import specifiers, wrappers
    which = req[1] if len(req) > 1 else 'all'
    problems = []
    names = ('self', 'args', 'kwargs', 'func', 'wrapped', 'instance', 'owner')
    with warnings.catch_warnings():
        warnings.simplefilter('ignore')
        for nm in names:
            ns = {}
            exec('def inner(a, b=1): return (a, b)\n'
                 'def w(%s, *args, **kwargs): return (%s, inner(*args, **kwargs))\n'
                 'def plainf(%s, x=5): return (%s, x)\n' % (nm, nm, nm, nm), ns) if nm not in ('args', 'kwargs') else \
                exec('def inner(a, b=1): return (a, b)\n'
                     'def w(%s, *rest, **opts): return (%s, inner(*rest, **opts))\n'
                     'def plainf(%s, x=5): return (%s, x)\n' % (nm, nm, nm, nm), ns)
            if which in ('all', 'c04'):
                g = _try(lambda: specifiers.forwards_to_function(ns['inner'], emulate=True)(ns['w']))
                if g[0] != 'ok':
                    problems.append('emulate-decoration: forwards_to_function(inner, emulate=True) over def w(%s, *args, **kwargs) raised %s' % (nm, g[1]))
                else:
                    g = g[1]
                    sig = _try(lambda: sigtools.signature(g))
                    if sig[0] == 'ok' and nm in sig[1].parameters and sig[1].parameters[nm].kind.name == 'POSITIONAL_OR_KEYWORD':
                        for kw in ({nm: 'R', 'a': 'A'}, {nm: 'R', 'a': 'A', 'b': 'B'}):
                            got = _try(lambda: g(**kw))
                            want = ('ok', ('R', ('A', kw.get('b', 1))))
                            if got != want:
                                problems.append('emulate-receiver-name: forwards_to_function(inner, emulate=True) over def w(%s, *args, **kwargs) advertises %s, the call (**%r) -> %s, expected %s' % (
                                    nm, sig[1], kw, got, want))
                                break
            if which in ('all', 'c13'):
                @wrappers.decorator
                def deco(wrapped, /, *args, **kwargs):
                    return ('d', wrapped(*args, **kwargs))

                @wrappers.wrapper_decorator
                def wdeco(wrapped, /, *args, **kwargs):
                    return ('d', wrapped(*args, **kwargs))
                for dl, d in (('wrappers.decorator', deco), ('wrappers.wrapper_decorator', wdeco)):
                    g = _try(lambda: d(ns['plainf']))
                    if g[0] != 'ok':
                        problems.append('wrapper-decoration: %s over def plainf(%s, x=5) raised %s' % (dl, nm, g[1]))
                        continue
                    g = g[1]
                    sig = _try(lambda: sigtools.signature(g))
                    for kw in ({nm: 'R'}, {nm: 'R', 'x': 'X'}):
                        got = _try(lambda: g(**kw))
                        want = ('ok', ('d', ('R', kw.get('x', 5))))
                        if got != want:
                            problems.append('wrapper-receiver-name: %s over def plainf(%s, x=5) advertises %s, the call (**%r) -> %s, by hand %s' % (
                                dl, nm, sig[1] if sig[0] == 'ok' else sig, kw, got, want))
                            break
    if which in ('all', 'c13'):
        with warnings.catch_warnings():
            warnings.simplefilter('ignore')
            for nm in ('self', 'function', 'functions'):
                ns = {}
                exec('def f1(arg, %s=1, k=2): return arg + %s\ndef f2(arg, %s=1, **kwargs): return arg * 2\n' % (nm, nm, nm), ns)
                c = _try(lambda: wrappers.Combination(ns['f1'], ns['f2']))
                if c[0] != 'ok':
                    problems.append('combination-receiver-name: Combination(f1, f2) with a parameter called %s raised %s' % (nm, c[1]))
                    continue
                sig = _try(lambda: sigtools.signature(c[1]))
                got = _try(lambda: c[1](1, **{nm: 5}))
                want = _try(lambda: ns['f2'](ns['f1'](1, **{nm: 5}), **{nm: 5}))
                if got != want:
                    problems.append('combination-receiver-name: Combination(f1, f2) advertises %s; the call (1, %s=5) -> %s, the hand composition -> %s' % (
                        sig[1] if sig[0] == 'ok' else sig, nm, got, want))
    return ('ok', tuple(problems[:6]), 'receiver_names')


RT['receiver_names'] = rt_receiver_names
RT['receiver_names_c04'] = lambda req: rt_receiver_names(('rt:receiver_names', 'c04'))
RT['receiver_names_c13'] = lambda req: rt_receiver_names(('rt:receiver_names', 'c13'))


def _pdata(sig):
    # the NAME of a star parameter is no part of what a signature accepts: merge keeps the left one
    return tuple(('*' if p.kind.name.startswith('VAR_') else p.name, p.kind.name, 'EMPTY' if p.default is p.empty else repr(p.default),
                  'EMPTY' if p.annotation is p.empty else repr(p.annotation)) for p in sig.parameters.values())


def rt_laws_codeless(req):
    """C09, second sentence, for signatures that do not come from a function with a code object: classes (their `__init__`),
    instances with `__call__`, bound methods of them, plain `inspect.Signature` inputs — annotated, star parameters included:
    merge(s) = merge(s, s) = merge(s, s, s) = s, a bare (*args, **kwargs) is neutral on either side, folding = n-ary"""
    import sigtools
    from sigtools import signatures

    class Job:
        def __init__(self, a: int, b: 'B' = 1, *extra: int, k: str = 'k', **opts: float): pass

    class Inst:
        def __call__(self, a: int, *rest: int, k: str, **opts: float): pass

    def fn(a: int, b: str = 's', *rest: int, k: float = 1.0, **opts: int): pass

    def bare(*args, **kwargs): pass
    problems = []
    with warnings.catch_warnings():
        warnings.simplefilter('ignore')
        cands = [('signature(class)', lambda: signatures.signature(Job)), ('sigtools.signature(class)', lambda: sigtools.signature(Job)),
                 ('signature(instance with __call__)', lambda: signatures.signature(Inst())),
                 ('plain inspect.Signature', lambda: inspect.signature(fn)),
                 ('signature(function)', lambda: signatures.signature(fn))]
        for label, mk in cands:
            s = mk()
            want = _pdata(s)
            bs = signatures.signature(bare)
            for ll, f in (('merge(s)', lambda: signatures.merge(mk())), ('merge(s, s)', lambda: signatures.merge(mk(), mk())),
                          ('merge(s, s, s)', lambda: signatures.merge(mk(), mk(), mk())),
                          ('merge(bare, s)', lambda: signatures.merge(bs, mk())), ('merge(s, bare)', lambda: signatures.merge(mk(), bs)),
                          ('merge(merge(s, bare), s)', lambda: signatures.merge(signatures.merge(mk(), bs), mk()))):
                got = _try(lambda: _pdata(f()))
                if got != ('ok', want):
                    problems.append('law-codeless: %s for s = %s = %s gives %s' % (ll, label, want, got))
    return ('ok', tuple(problems[:6]), 'laws_codeless')


RT['laws_codeless'] = rt_laws_codeless


def rt_bind_receiver(req):
    """C14: bind / bind_partial of a returned signature behave as inspect's: the receiver of `Signature.bind` is positional-only,
    so a keyword argument called `self` (or `args`, `kwargs`) reaches the parameter of that name or `**kwargs`"""
    import sigtools
    from sigtools import signatures, modifiers
    problems = []

    class C:
        def m(self, a, b=2): pass

        @modifiers.kwoargs('b')
        def k(self, a, b=2): pass

    def kw(a, **kwargs): pass

    def named(args, kwargs=1, *, self=3): pass
    with warnings.catch_warnings():
        warnings.simplefilter('ignore')
        for label, obj in (('C.m', C.m), ('C.k', C.k), ('kw', kw), ('named', named)):
            for getter in (sigtools.signature, signatures.signature, lambda o: sigtools.signature(o).evaluated(),
                           lambda o: signatures.mask(signatures.signature(o), 0), lambda o: signatures.merge(signatures.signature(o))):
                s = _try(lambda: getter(obj))
                if s[0] != 'ok':
                    continue
                ref = inspect.Signature(list(inspect.signature(obj).parameters.values()))
                for args, kws in (((), {'self': 1, 'a': 2}), ((), {'a': 2, 'self': 1, 'args': 5}), ((1,), {'self': 7}), ((), {'args': 1}),
                                  ((), {'args': 1, 'kwargs': 2, 'self': 3}), ((1, 2), {})):
                    for meth in ('bind', 'bind_partial'):
                        want = _try(lambda: tuple(getattr(ref, meth)(*args, **kws).arguments.items()))
                        got = _try(lambda: tuple(getattr(s[1], meth)(*args, **kws).arguments.items()))
                        if want != got:
                            problems.append('bind-differs: %s of the signature returned for %s %s: (*%r, **%r) -> %s, inspect.Signature -> %s' % (
                                meth, label, s[1], args, kws, got, want))
    return ('ok', tuple(problems[:4]), 'bind_receiver')


RT['bind_receiver'] = rt_bind_receiver


def rt_partial_odd(req):
    """C19: partial objects whose bound keywords are legal but unusual identifiers (non-ASCII letters), whose bound positionals are
    unhashable, and whose function's callee is rebound between two retrievals: the signature is the one Python enforces / the
    one discovery gives for the function as it is NOW"""
    import functools
    import sigtools
    from sigtools import signatures
    from . import progs
    problems = []
    with warnings.catch_warnings():
        warnings.simplefilter('ignore')
        ns = {}
        exec('def f(a, λ=1, *args, Δx=2, ß=3, **kwargs): return (a, λ, args, Δx, ß, kwargs)\n'
             'def g(a, /, b, *args, **kwargs): return (a, b, args, kwargs)\n', ns)
        for fl, kws in (('f', {'λ': 5}), ('f', {'Δx': 5}), ('f', {'ß': 5, 'zzz': 1}), ('g', {'Δx': 5}), ('g', {'b': 1, 'λ': 2})):
            p = functools.partial(ns[fl], **kws)
            for gl, getter in (('sigtools.signature', sigtools.signature), ('signatures.signature', signatures.signature)):
                got = _try(lambda: str(getter(p)))
                want = _try(lambda: str(inspect.signature(p)))
                if got[0] != want[0]:
                    problems.append('partial-unicode: %s(partial(%s, **%r)) -> %s, inspect.signature -> %s' % (gl, fl, kws, got, want))
                    continue
                if got[0] != 'ok':
                    continue
                s = getter(p)
                for args, kw in (((), {}), ((1,), {}), ((1, 2), {}), ((1, 2, 3), {}), ((1,), {'λ': 9}), ((1,), {'b': 9}), ((1,), {'Δx': 4})):
                    acc = _try(lambda: s.bind(*args, **kw))[0] == 'ok'
                    runs = _try(lambda: p(*args, **kw))
                    if acc != (runs[0] == 'ok') and (runs[0] == 'ok' or runs[1] == 'TypeError'):
                        problems.append('partial-unicode: %s(partial(%s, **%r)) = %s %s (*%r, **%r) but the call %s' % (
                            gl, fl, kws, s, 'accepts' if acc else 'rejects', args, kw, 'runs' if runs[0] == 'ok' else 'raises TypeError'))
                        break
        def tagf(name, **attrs): return (name, attrs)
        for kws in ({'class': 'x'}, {'data-id': 1}, {'ok': 1, 'class': 2}, {'': 0}, {'1st': 1, 'name': 'n'}):
            p = functools.partial(tagf, **kws)
            for gl, getter in (('sigtools.signature', sigtools.signature), ('signatures.signature', signatures.signature)):
                got = _try(lambda: getter(p))
                want = _try(lambda: inspect.signature(p))
                if got[0] != want[0]:
                    problems.append('partial-odd-keyword: %s(partial(tag, **%r)) -> %s, inspect.signature -> %s' % (gl, kws, got if got[0] != 'ok' else str(got[1]), want if want[0] != 'ok' else str(want[1])))
                    continue
                if got[0] == 'ok':
                    for args in ((), ('n',), ('n', 'm')):
                        acc = _try(lambda: got[1].bind(*args))[0] == 'ok'
                        runs = _try(lambda: p(*args))
                        if acc != (runs[0] == 'ok'):
                            problems.append('partial-odd-keyword: %s(partial(tag, **%r)) = %s %s %r but the call %s' % (gl, kws, got[1], 'accepts' if acc else 'rejects', args, runs))
        src = ('def callee(y, *, z=0): return (y, z)\ndef other(q, r=1): return (q, r)\n'
               'def w(cb, extra, *args, **kwargs):\n    return cb(*args, **kwargs)\n'
               'def wg(extra, *args, **kwargs):\n    return TARGET(*args, **kwargs)\nTARGET = callee\n')
        mod, fname = progs.load_module(src)
        try:
            for label, mk in (('a list', lambda: [1, 2]), ('a dict', lambda: {'k': 1}), ('a set', lambda: {1})):
                p = functools.partial(mod.w, mod.callee, mk())
                got = _try(lambda: str(sigtools.signature(p)))
                twin = _try(lambda: str(sigtools.signature(functools.partial(mod.w, mod.callee, 0))))
                if got != twin:
                    problems.append('partial-unhashable-bound: sigtools.signature(partial(w, callee, <%s>)) = %s, with a hashable value in its place %s' % (label, got, twin))
            p = functools.partial(mod.wg, 0)
            first = _try(lambda: str(sigtools.signature(p)))
            mod.TARGET = mod.other
            second = _try(lambda: str(sigtools.signature(p)))
            fresh = _try(lambda: str(sigtools.signature(functools.partial(mod.wg, 0))))
            if second != fresh:
                problems.append('partial-stale: after the callee of the function was rebound, sigtools.signature(p) = %s (first %s) but a fresh equal partial object gives %s' % (second, first, fresh))
        finally:
            progs.unload(fname)
    return ('ok', tuple(problems[:5]), 'partial_odd')


RT['partial_odd'] = rt_partial_odd


def rt_support_text_odd(req):
    """C20: `func_from_sig` reproduces return annotations whose text contains brackets, `s` / `f` / `bind_callsig` handle defaults
    and annotations that are strings containing a single bracket"""
    from sigtools import support
    problems = []
    with warnings.catch_warnings():
        warnings.simplefilter('ignore')
        for ret in ((), (1, 2), 'f(x)', [1], {'k': (1,)}, 'a)b'):
            ns = {}
            def base(a, b=1, *c, d): pass
            sig = inspect.signature(base).replace(return_annotation=ret)
            got = _try(lambda: inspect.signature(support.func_from_sig(sig)))
            if got[0] != 'ok' or got[1].return_annotation != ret or list(got[1].parameters) != ['a', 'b', 'c', 'd']:
                problems.append('func_from_sig-return: func_from_sig(%s) -> %s' % (sig, got if got[0] != 'ok' else (got[1], got[1].return_annotation)))
        for text, call, want in (("a='(', b=2", ((), {}), {'a': '(', 'b': 2}), ("a: ']', b=3", ((1,), {}), {'a': 1, 'b': 3}),
                                 ("a='{', *args, b='}'", ((), {}), {'a': '{', 'args': (), 'b': '}'}), ("a=')', b=']'", ((5,), {}), {'a': 5, 'b': ']'})):
            for opts in ({}, {'use_modifiers_annotate': True}):
                sig = _try(lambda: support.s(text, **opts))
                if sig[0] != 'ok':
                    problems.append('bracket-in-string: s(%r, %s) raised %s' % (text, opts, sig[1]))
                    continue
                fn = _try(lambda: support.f(text, **opts))
                r = _try(lambda: dict(fn[1](*call[0], **call[1]))) if fn[0] == 'ok' else fn
                b = _try(lambda: dict(support.bind_callsig(sig[1], call[0], call[1])))
                if r != ('ok', want) or b != ('ok', want):
                    problems.append('bracket-in-string: f(%r, %s)(*%r) -> %s, bind_callsig -> %s, expected %s' % (text, opts, call[0], r, b, want))
    with warnings.catch_warnings():
        warnings.simplefilter('ignore')
        from sigtools import modifiers
        for text, ret in (('self: 1, b: 2=3', None), ('self: 1', 7), ('a, self: 4', None), ('args: 1, kwargs: 2', None)):
            for opts in ({'use_modifiers_annotate': True}, {'use_modifiers_annotate': True, 'use_modifiers_kwoargs': True}):
                want = _try(lambda: str(support.s(text, *(() if ret is None else (ret,)))))
                got = _try(lambda: str(support.s(text, *(() if ret is None else (ret,)), **opts)))
                if got != want:
                    problems.append('annotate-receiver-name: s(%r, %s) -> %s, the native spelling gives %s' % (text, opts, got, want))

        def mk():
            class K:
                @modifiers.annotate(int, self=str, a=float)
                def m(self, a): pass
            return K
        r = _try(lambda: (lambda K: (str(inspect.signature(K.m)), str(inspect.signature(K().m))))(mk()))
        if r != ('ok', ('(self: str, a: float) -> int', '(a: float) -> int')):
            problems.append('annotate-receiver-name: annotate(int, self=str, a=float) on a method -> %s' % (r,))
    return ('ok', tuple(problems[:5]), 'support_text_odd')


RT['support_text_odd'] = rt_support_text_odd


def rt_pok_forms_direct(req):
    """C12: the start= / end= forms stacked with by-name selections, on plain functions called DIRECTLY (not as methods), and
    the same forms over a function whose body forwards *args / **kwargs (the selection is made among the function's OWN
    parameters): decoration succeeds, the advertised signature is the function's own with the selection applied, every call
    is delivered where that signature binds it"""
    from sigtools import modifiers
    problems = []

    def native(sig, f):
        def call(*args, **kw):
            ba = sig.bind(*args, **kw)
            ba.apply_defaults()
            return dict(ba.arguments)
        return call
    with warnings.catch_warnings():
        warnings.simplefilter('ignore')
        for dflts in ('a=0, b=1, c=2, d=3', 'a, b, c, d', 'a, b, c=2, d=3'):
            stacks = (("kwoargs(start='c') over kwoargs('a')", lambda f: modifiers.kwoargs(start='c')(modifiers.kwoargs('a')(f))),
                      ("kwoargs('a') over kwoargs(start='c')", lambda f: modifiers.kwoargs('a')(modifiers.kwoargs(start='c')(f))),
                      ("posoargs(end='b') over kwoargs('d')", lambda f: modifiers.posoargs(end='b')(modifiers.kwoargs('d')(f))),
                      ("posoargs(end='a') over kwoargs('c')", lambda f: modifiers.posoargs(end='a')(modifiers.kwoargs('c')(f))),
                      ("kwoargs(start='d') over posoargs('a')", lambda f: modifiers.kwoargs(start='d')(modifiers.posoargs('a')(f))),
                      ("kwoargs(start='c') over posoargs(end='a')", lambda f: modifiers.kwoargs(start='c')(modifiers.posoargs(end='a')(f))),
                      ("kwoargs(start='b') over kwoargs('d')", lambda f: modifiers.kwoargs(start='b')(modifiers.kwoargs('d')(f))))
            for sl, st in stacks:
                ns = {}
                exec('def f(%s): return {"a": a, "b": b, "c": c, "d": d}' % dflts, ns)
                g = _try(lambda: st(ns['f']))
                if g[0] != 'ok':
                    if 'a, b, c=2' in dflts or 'a, b, c, d' == dflts:
                        # kwoargs('a') over a function whose later positionals are required is admissible (they stay positional)
                        pass
                    problems.append('forms-decoration: %s over def f(%s) raised %s' % (sl, dflts, g[1]))
                    continue
                g = g[1]
                sig = inspect.signature(g)
                for args, kw in _calls(('a', 'b', 'c', 'd')):
                    if len(args) > 3 and kw:
                        continue
                    want = _try(lambda: native(sig, g)(*args, **kw))
                    if want[0] != 'ok':
                        want = ('raised', 'TypeError')
                    got = _try(lambda: g(*args, **kw))
                    if got != want:
                        problems.append('forms-direct-call: %s over def f(%s), advertised %s: call(*%r, **%r) -> %s, the advertised signature says %s' % (
                            sl, dflts, sig, args, kw, got, want))
                        break
        # the decorated function forwards its stars: the selection is among its own parameters
        from . import progs
        mod, fname = progs.load_module('def callee(p, q=1, *, r=2): return (p, q, r)\n'
                                       'def w(x, y, *args, **kwargs): return (x, y, callee(*args, **kwargs))\n'
                                       'class C:\n    def m(self, x, y, *args, **kwargs): return (x, y, callee(*args, **kwargs))\n')
        try:
            for dl, deco in (("kwoargs(start='y')", lambda: modifiers.kwoargs(start='y')), ("kwoargs(start='x')", lambda: modifiers.kwoargs(start='x')),
                             ("posoargs(end='x')", lambda: modifiers.posoargs(end='x')), ("posoargs(end='y')", lambda: modifiers.posoargs(end='y')),
                             ("kwoargs('y')", lambda: modifiers.kwoargs('y')), ("autokwoargs", lambda: modifiers.autokwoargs)):
                for tl, target in (('w', mod.w), ('C.m', mod.C.__dict__['m'])):
                    g = _try(lambda: deco()(target))
                    if g[0] != 'ok':
                        problems.append('forms-over-forwarding: %s over the forwarding function %s raised %s at decoration time' % (dl, tl, g[1]))
                        continue
                    own = [n for n in inspect.signature(g[1]).parameters]
                    if not {'x', 'y'} <= set(own):
                        problems.append('forms-over-forwarding: %s over the forwarding function %s advertises %s' % (dl, tl, inspect.signature(g[1])))
        finally:
            progs.unload(fname)
    return ('ok', tuple(problems[:6]), 'pok_forms_direct')


RT['pok_forms_direct'] = rt_pok_forms_direct


def rt_mask_odd(req):
    """C03: mask is indifferent to how parameters are spelled and to what their defaults are: renaming the parameters of a
    signature (to multi-letter names whose letters are names of other parameters) renames the result, and unhashable
    defaults / annotations behave like hashable ones"""
    from sigtools import signatures, support
    problems = []
    ren = {'a': 'self', 'b': 'f', 'c': 'e', 'd': 'node', 'x': 'l', 'k': 'no', 'r': 'rest', 'o': 'opts'}
    texts = ('a, b, c', 'a, b, *, c=None', 'a, d, *, b=None', 'a, d, b=1, *r, c, **o', 'a, /, d, b, *, x=1, k', 'd, a, *r, b=2, **o', 'a, d, k, *, c')
    with warnings.catch_warnings():
        warnings.simplefilter('ignore')
        for t in texts:
            s1 = support.s(t)
            t2 = ', '.join(''.join(ren.get(tok, tok) if tok.isidentifier() else tok for tok in _toks(part)) for part in t.split(', '))
            s2 = support.s(t2)
            names = [p.name for p in s1.parameters.values() if p.kind.name in ('POSITIONAL_OR_KEYWORD', 'KEYWORD_ONLY')]
            for n in range(0, 3):
                for r in range(0, 3):
                    for sel in itertools.permutations(names, r):
                        for fl in ({}, {'hide_args': True}, {'hide_kwargs': True}):
                            a = _try(lambda: _pnames(signatures.mask(s1, n, *sel, **fl), ren))
                            b = _try(lambda: _pnames(signatures.mask(s2, n, *[ren.get(x, x) for x in sel], **fl), {}))
                            if a != b:
                                problems.append('mask-renaming: mask((%s), %d, %s, %s) -> %s but on the renamed twin (%s) -> %s' % (t, n, sel, fl, a, t2, b))
        for dl, d in (('[]', []), ('{}', {}), ('set()', set())):
            def f(a, tags=d, *rest, opts=d, **kw): pass
            def twin(a, tags=0, *rest, opts=0, **kw): pass
            for n in range(0, 4):
                for sel in ((), ('tags',), ('opts',), ('opts', 'tags')):
                    a = _try(lambda: [(p.name, p.kind.name, p.default is not p.empty) for p in signatures.mask(signatures.signature(f), n, *sel).parameters.values()])
                    b = _try(lambda: [(p.name, p.kind.name, p.default is not p.empty) for p in signatures.mask(signatures.signature(twin), n, *sel).parameters.values()])
                    if a != b:
                        problems.append('mask-unhashable-default: mask((a, tags=%s, *rest, opts=%s, **kw), %d, %s) -> %s, with hashable defaults %s' % (dl, dl, n, sel, a, b))
    return ('ok', tuple(problems[:5]), 'mask_odd')


def _toks(part):
    import re
    return re.findall(r'[A-Za-z_]+|[^A-Za-z_]+', part)


def _pnames(sig, ren):
    return tuple((ren.get(p.name, p.name), p.kind.name, p.default is not p.empty) for p in sig.parameters.values())


RT['mask_odd'] = rt_mask_odd


def rt_wrap_named_star(req):
    """C13: a wrapper that passes one argument BY NAME to a function with `*rest` (declared wrapper_decorator(0, 'tag') /
    decorator(0, 'tag')): every call the stack's signature accepts runs without an argument-binding TypeError"""
    import sigtools
    from sigtools import wrappers
    problems = []
    with warnings.catch_warnings():
        warnings.simplefilter('ignore')
        for dl, dec in (('wrapper_decorator', wrappers.wrapper_decorator),):
            @dec(0, 'tag')
            def label(wrapped, label_, *args, **kwargs):
                return wrapped(*args, tag=label_, **kwargs)
            for ft in ('first, tag, *rest', 'first, tag, *rest, k=1', 'tag, *rest', 'first, second, tag, *rest, **kw', 'first, tag'):
                ns = {}
                exec('def f(%s): return 1' % ft, ns)
                g = _try(lambda: label(ns['f']))
                if g[0] != 'ok':
                    problems.append('wrap-named-star: %s(0, "tag") over def f(%s) raised %s' % (dl, ft, g[1]))
                    continue
                sig = _try(lambda: sigtools.signature(g[1]))
                if sig[0] != 'ok':
                    problems.append('wrap-named-star: sigtools.signature raised %s for %s(0, "tag") over def f(%s)' % (sig[1], dl, ft))
                    continue
                for n in range(0, 6):
                    for kw in ({}, {'k': 1}, {'first': 0}, {'second': 1}):
                        if _try(lambda: sig[1].bind(*range(n), **kw))[0] != 'ok':
                            continue
                        r = _try(lambda: g[1](*range(n), **kw))
                        if r == ('raised', 'TypeError'):
                            problems.append('wrap-named-star: %s(0, "tag") over def f(%s) advertises %s which accepts %d positionals + %r, the call raises TypeError' % (
                                dl, ft, sig[1], n, kw))
    return ('ok', tuple(problems[:5]), 'wrap_named_star')


RT['wrap_named_star'] = rt_wrap_named_star


def rt_depths_key(req):
    """C15 / C08: the reserved key '+depths' of the provenance map is not a parameter: naming it (or any other string that is
    no parameter) as a named argument of mask / forwards leaves a well-formed result — every parameter has its entry, the
    depth map is there"""
    from sigtools import signatures
    problems = []

    def inner(a, b=1, *args, c=2, **kwargs): pass

    def outer(x, *args, **kwargs): pass
    with warnings.catch_warnings():
        warnings.simplefilter('ignore')
        for nm in ('+depths', 'zz', '', 'a b'):
            for label, fn in (('mask(inner, 0, %r)' % nm, lambda: signatures.mask(signatures.signature(inner), 0, nm)),
                              ('forwards(outer, inner, 0, %r)' % nm, lambda: signatures.forwards(signatures.signature(outer), signatures.signature(inner), 0, nm)),
                              ('mask(mask(inner, 0, %r), 1)' % nm, lambda: signatures.mask(signatures.mask(signatures.signature(inner), 0, nm), 1)),
                              ('embed(outer, mask(inner, 0, %r))' % nm, lambda: signatures.embed(signatures.signature(outer), signatures.mask(signatures.signature(inner), 0, nm)))):
                r = _try(fn)
                if r[0] != 'ok':
                    if r[1] != 'ValueError':
                        problems.append('reserved-key: %s raised %s' % (label, r[1]))
                    continue
                src = getattr(r[1], 'sources', None)
                if not isinstance(src, dict) or not isinstance(src.get('+depths'), dict) or not src['+depths']:
                    problems.append('reserved-key: %s = %s has no depth map (sources = %r)' % (label, r[1], src))
                    continue
                missing = [n for n in r[1].parameters if not src.get(n)]
                nodepth = [f for n in r[1].parameters for f in src.get(n, ()) if f not in src['+depths']]
                if missing or nodepth:
                    problems.append('reserved-key: %s = %s: parameters without sources %s, listed callables without depth %s' % (label, r[1], missing, nodepth))
    return ('ok', tuple(problems[:5]), 'depths_key')


RT['depths_key'] = rt_depths_key


def rt_preempt2(req):
    """C17, two preemptions: thread A is parked before its k-th sigtools line; thread B then runs until ITS j-th sigtools line
    and is parked there; A resumes and finishes; B resumes and finishes.  Neither may raise, and afterwards — at quiescence,
    alone — the shared object must answer what it answered before, and again (nothing that was read inside the other
    thread's delete/restore window may have been kept).  For functions with a `__wrapped__` of their own the answers
    obtained DURING the schedule are subject to the recorded window D6 and are not judged here."""
    import sys
    import threading
    from . import real_rt
    _, name, ks, js = req
    if name == 'wrapped_fresh':
        # a functools.wraps function nobody has asked about before: a new one for every schedule (and for the reference)
        from . import scenarios

        def make():
            def target(p, q=1): return ('t', p, q)
            return {'o': scenarios.wraps_deco(target)}
        do = real_rt._preempt_scenarios()['wrapped_fn'][1]
    else:
        make, do, _b = real_rt._preempt_scenarios()[name]
    windowed = name in ('wrapped_fn', 'wrapped_twice', 'wrapped_fresh', 'instance_signature', 'annotate_related')
    expected = do(make())
    problems = []
    explored = 0
    for k in ks:
        for j in js:
            st = make()
            a_reached, a_resume, b_reached, b_resume = (threading.Event() for _ in range(4))
            out = {}

            def tracer_for(n, reached, resume, counter):
                def local_tracer(frame, event, arg):
                    if event == 'line':
                        counter[0] += 1
                        if counter[0] == n:
                            reached.set()
                            resume.wait(30)
                    return local_tracer

                def global_tracer(frame, event, arg):
                    if event == 'call' and real_rt._in_sigtools(frame.f_code.co_filename):
                        return local_tracer
                    return None
                return global_tracer
            ca, cb = [0], [0]

            def run(tag, tr, reached):
                sys.settrace(tr)
                try:
                    out[tag] = ('ok', do(st))
                except BaseException as e:  # noqa
                    out[tag] = ('raised', type(e).__name__, str(e)[:200])
                finally:
                    sys.settrace(None)
                    reached.set()
            ta = threading.Thread(target=run, args=('a', tracer_for(k, a_reached, a_resume, ca), a_reached))
            tb = threading.Thread(target=run, args=('b', tracer_for(j, b_reached, b_resume, cb), b_reached))
            ta.start()
            a_reached.wait(30)
            tb.start()
            b_reached.wait(30)
            a_resume.set()
            ta.join(60)
            b_resume.set()
            tb.join(60)
            if ta.is_alive() or tb.is_alive():
                problems.append('preempt2-stuck: scenario %s, A parked at #%d, B at #%d' % (name, k, j))
                break
            explored += 1
            for t in 'ab':
                r = out.get(t)
                if r != ('ok', expected) and not (windowed and r and r[0] == 'ok'):
                    problems.append('concurrent-answer: scenario %s, A parked before its sigtools line #%d, B before its line #%d, A finishes first: thread %s got %s, alone it gets %s' % (
                        name, k, j, t.upper(), r, expected))
            for rep in (1, 2):
                try:
                    after = do(st)
                except BaseException as e:  # noqa
                    after = ('raised', type(e).__name__)
                if after != expected:
                    problems.append('not-restored: scenario %s after the schedule (A parked at #%d, B at #%d, A finishes first): the shared object, asked alone (attempt %d), answers %s, before %s' % (
                        name, k, j, rep, after, expected))
                    break
            if len(problems) >= 3:
                return ('ok', tuple(problems[:3]), 'explored:%d' % explored)
    return ('ok', tuple(problems[:3]), 'explored:%d' % explored)


RT['preempt2'] = rt_preempt2
for _i in range(4):
    RT['preempt2_%d' % _i] = (lambda i: lambda req: rt_preempt2(('rt:preempt2', 'wrapped_fresh', tuple(range(5 + 15 * i, 700, 60)), tuple(range(5, 700, 15)))))(_i)


def _prov_problems(sig, what):
    src = getattr(sig, 'sources', None)
    if not isinstance(src, dict) or '+depths' not in src:
        return ['%s: %s has no provenance map' % (what, sig)]
    out = []
    extra = sorted(set(src) - set(sig.parameters) - {'+depths'})
    if extra:
        out.append('%s: %s has source entries for %s, which are not parameters' % (what, sig, extra))
    for n in sig.parameters:
        if not src.get(n):
            out.append('%s: parameter %s of %s has no source' % (what, n, sig))
        for f in src.get(n, ()):
            if f not in src['+depths']:
                out.append('%s: a source of %s has no depth' % (what, n))
    return out


def rt_callable_prov(req):
    """C08: provenance of what is retrieved for callable INSTANCES whose class decorates `__call__` (and `__init__`, methods)
    with modifiers: one entry per parameter, none for the receiver that binding removed; carried through forwards / partial"""
    import functools
    import sigtools
    from sigtools import modifiers, signatures
    problems = []

    class Greeter(object):
        @modifiers.annotate(greeting=str)
        def __init__(self, greeting='hello'): pass

        @modifiers.kwoargs('punctuation')
        def __call__(self, name, punctuation='!'): return name

        @modifiers.posoargs('self', 'name')
        def pos(self, name, loud=False): return name

    class Annotated(object):
        @modifiers.annotate(name=str)
        def __call__(self, name, k=1): return name

    def outer(x, *args, **kwargs): pass
    with warnings.catch_warnings():
        warnings.simplefilter('ignore')
        for label, obj in (('instance with kwoargs __call__', Greeter()), ('instance with annotate __call__', Annotated()),
                           ('bound posoargs method', Greeter().pos), ('class', Greeter)):
            for gl, get in (('signatures.signature', signatures.signature), ('sigtools.signature', sigtools.signature)):
                s = _try(lambda: get(obj))
                if s[0] != 'ok':
                    problems.append('callable-prov: %s(%s) raised %s' % (gl, label, s[1]))
                    continue
                if 'self' in s[1].parameters:
                    problems.append('callable-prov: %s(%s) = %s shows the receiver' % (gl, label, s[1]))
                problems += ['callable-prov: ' + p for p in _prov_problems(s[1], '%s(%s)' % (gl, label))]
                for dl, derive in (('forwards(outer, ·)', lambda: signatures.forwards(signatures.signature(outer), s[1])),
                                   ('signature(partial(·))', lambda: get(functools.partial(obj))),
                                   ('mask(·, 0)', lambda: signatures.mask(s[1], 0))):
                    d = _try(derive)
                    if d[0] == 'ok':
                        problems += ['callable-prov: ' + p for p in _prov_problems(d[1], '%s of %s(%s)' % (dl, gl, label))]
    return ('ok', tuple(problems[:5]), 'callable_prov')


RT['callable_prov'] = rt_callable_prov


def rt_kwname_decl(req):
    """C06: discovery = the explicit declaration for forwarding calls that pass one argument BY NAME, whatever the name
    (names of sigtools' own helper parameters included), and for calls whose other arguments are attribute reads that fail
    with something else than AttributeError (a property raising RuntimeError, a `__getattr__` letting KeyError out): the
    argument is unknown, the retrieval does not raise"""
    import sigtools
    from sigtools import signatures
    from . import progs
    problems = []
    kws = ('callback', 'func', 'self', 'args', 'kwargs', 'obj', 'sig', 'name', 'partial', 'call', 'signature', 'function', 'wrapped', 'cls')
    src = ''.join('def callee_%s(x, y=None, *, %s, z=0): return x\ndef wrapper_%s(a, *args, **kwargs):\n    return callee_%s(a, *args, %s=None, **kwargs)\n' % (k, k, k, k, k)
                  for k in kws)
    src += ('class Lazy(object):\n    @property\n    def conn(self):\n        raise RuntimeError("not connected")\n'
            '    def __getattr__(self, name):\n        raise KeyError(name)\n'
            'LAZY = Lazy()\n'
            'def record(ch, payload, *, level=0): return payload\n'
            'def via_property(tag, *args, **kwargs):\n    return record(LAZY.conn, *args, **kwargs)\n'
            'def via_getattr(tag, *args, **kwargs):\n    return record(LAZY.missing, *args, **kwargs)\n'
            'def via_kw(tag, *args, **kwargs):\n    return record(0, *args, level=LAZY.conn, **kwargs)\n'
            'def callee_attr(tag, *args, **kwargs):\n    return LAZY.conn(*args, **kwargs)\n'
            'def callee_attr2(tag, *args, **kwargs):\n    return LAZY.missing.deeper(*args, **kwargs)\n')
    mod, fname = progs.load_module(src)
    try:
        with warnings.catch_warnings():
            warnings.simplefilter('ignore')
            for k in kws:
                w, c = getattr(mod, 'wrapper_' + k), getattr(mod, 'callee_' + k)
                got = _try(lambda: sigtools.signature(w))
                want = _try(lambda: signatures.forwards(signatures.signature(w), sigtools.signature(c), 1, k))
                if got[0] != want[0] or (got[0] == 'ok' and (str(got[1]) != str(want[1]) or got[1].sources != want[1].sources)):
                    problems.append('kwname-declaration: the forwarding call passes %s=…: discovered %s, the explicit declaration forwards(w, callee, 1, %r) gives %s' % (
                        k, got[1] if got[0] != 'ok' else str(got[1]), k, want[1] if want[0] != 'ok' else str(want[1])))
            for nm, want in (('via_property', '(tag, payload, *, level=0)'), ('via_getattr', '(tag, payload, *, level=0)'), ('via_kw', '(tag, payload)'),
                             ('callee_attr', None), ('callee_attr2', None)):
                f = getattr(mod, nm)
                got = _try(lambda: str(sigtools.signature(f)))
                plain = str(signatures.signature(f))
                if got[0] != 'ok':
                    problems.append('failing-getter: sigtools.signature(%s) raised %s: an attribute read during discovery failed with something else than AttributeError' % (nm, got[1]))
                elif got[1] != (want or plain):
                    problems.append('failing-getter: sigtools.signature(%s) = %s, expected %s' % (nm, got[1], want or plain))
    finally:
        progs.unload(fname)
    return ('ok', tuple(problems[:5]), 'kwname_decl')


RT['kwname_decl'] = rt_kwname_decl


def rt_plain_sequence(req):
    """C02 / C15: sequences of operations on PLAIN inspect.Signature inputs that are created and released in turn (the address of
    a released object is reused at once): every result describes the input given NOW, not an earlier one"""
    import gc
    from sigtools import signatures, support
    P = inspect.Parameter
    problems = []
    outer = support.s('a, *args, **kwargs')
    shapes = ([P('x', P.POSITIONAL_OR_KEYWORD), P('y', P.POSITIONAL_OR_KEYWORD)], [P('k', P.KEYWORD_ONLY)],
              [P('z', P.POSITIONAL_OR_KEYWORD, default=1)], [P('m', P.POSITIONAL_ONLY), P('n', P.KEYWORD_ONLY, default=2)])
    with warnings.catch_warnings():
        warnings.simplefilter('ignore')
        for rnd in range(120):
            for i, ps in enumerate(shapes):
                sig = inspect.Signature(ps)
                want = ['a'] + [p.name for p in ps]
                for label, op in (('embed(outer, s)', lambda: signatures.embed(outer, sig)), ('merge(s)', lambda: signatures.merge(sig)),
                                  ('mask(s, 0)', lambda: signatures.mask(sig, 0)), ('forwards(outer, s)', lambda: signatures.forwards(outer, sig))):
                    r = _try(lambda: list(op().parameters))
                    exp = want if label.startswith(('embed', 'forwards')) else want[1:]
                    if r != ('ok', exp):
                        problems.append('stale-plain-input: round %d, %s for the plain signature %s gives parameters %s, expected %s (an earlier, released input had other parameters)' % (
                            rnd, label, sig, r, exp))
                        return ('ok', tuple(problems[:3]), 'plain_sequence')
                del sig
                gc.collect()
    return ('ok', tuple(problems[:3]), 'plain_sequence')


RT['plain_sequence'] = rt_plain_sequence


def rt_bare_upgraded(req):
    """C15: upgraded signatures built by hand with no provenance (`UpgradedSignature([UpgradedParameter(…)])`, what
    `replace(parameters=…)` on a fresh object or third-party code produces) are legal inputs: the algebra returns or raises
    ValueError, nothing else"""
    from sigtools import signatures, _signatures
    P = inspect.Parameter
    problems = []
    UP, US = _signatures.UpgradedParameter, _signatures.UpgradedSignature
    with warnings.catch_warnings():
        warnings.simplefilter('ignore')
        def mk(*ps):
            return US([UP(n, k) for n, k in ps])
        a = lambda: mk(('a', P.POSITIONAL_OR_KEYWORD), ('args', P.VAR_POSITIONAL), ('kwargs', P.VAR_KEYWORD))   # noqa
        b = lambda: mk(('x', P.POSITIONAL_OR_KEYWORD), ('k', P.KEYWORD_ONLY))   # noqa
        for label, op in (('mask(s, 1)', lambda: signatures.mask(b(), 1)), ('mask(s, 0, "k")', lambda: signatures.mask(b(), 0, 'k')),
                          ('merge(s, t)', lambda: signatures.merge(a(), b())), ('merge(s)', lambda: signatures.merge(b())),
                          ('embed(s, t)', lambda: signatures.embed(a(), b())), ('forwards(s, t)', lambda: signatures.forwards(a(), b())),
                          ('forwards(s, t, 1)', lambda: signatures.forwards(a(), b(), 1)), ('sort_params(s)', lambda: signatures.sort_params(b())),
                          ('s.evaluated()', lambda: b().evaluated()), ('s.replace(parameters=…)', lambda: b().replace(parameters=list(b().parameters.values())[:1]))):
            r = _try(op)
            if r[0] != 'ok' and r[1] != 'ValueError':
                problems.append('bare-upgraded-input: %s on hand-built UpgradedSignature objects raised %s' % (label, r[1]))
    return ('ok', tuple(problems[:5]), 'bare_upgraded')


RT['bare_upgraded'] = rt_bare_upgraded


def rt_none_attrs(req):
    """C16: what retrieval takes off an object for a moment it puts back, whatever the VALUE: `__signature__ = None` and
    `__wrapped__ = None` (legal for inspect: None means 'no signature set') are still there afterwards, on success and failure"""
    import sigtools
    from sigtools import signatures
    from . import progs
    problems = []
    src = ('def callee(x, y=1): return x\n'
           'def w(a, *args, **kwargs):\n    return callee(*args, **kwargs)\n'
           'def w2(a, *args, **kwargs):\n    return callee(*args, **kwargs)\n'
           'def w3(a, *args, **kwargs):\n    return missing_name(*args, **kwargs)\n')
    mod, fname = progs.load_module(src)
    try:
        with warnings.catch_warnings():
            warnings.simplefilter('ignore')
            for fn, attrs in ((mod.w, {'__signature__': None}), (mod.w2, {'__wrapped__': None}), (mod.w3, {'__signature__': None, '__wrapped__': None}),
                              (mod.w, {'__signature__': None, '__wrapped__': 0}), (mod.w2, {'__wrapped__': False, '__signature__': None})):
                for k in ('__signature__', '__wrapped__'):
                    fn.__dict__.pop(k, None)
                fn.__dict__.update(attrs)
                before = dict(vars(fn))
                for gl, get in (('sigtools.signature', sigtools.signature), ('signatures.signature', signatures.signature),
                                ('sigtools.signature(auto=False)', lambda o: sigtools.specifiers.signature(o, auto=False))):
                    r = _try(lambda: get(fn))
                    after = dict(vars(fn))
                    if after != before:
                        problems.append('attribute-lost: %s(%s) with %r set on it (%s): vars() before %r, after %r' % (
                            gl, fn.__name__, attrs, 'returned' if r[0] == 'ok' else 'raised ' + r[1], before, after))
                        fn.__dict__.clear()
                        fn.__dict__.update(before)
                for k in attrs:
                    fn.__dict__.pop(k, None)
    finally:
        progs.unload(fname)
    return ('ok', tuple(problems[:4]), 'none_attrs')


RT['none_attrs'] = rt_none_attrs


def _exec_src(src, ns, filename, postponed):
    import __future__
    import linecache
    linecache.cache[filename] = (len(src), None, src.splitlines(True), filename)
    exec(compile(src, filename, 'exec', __future__.annotations.compiler_flag if postponed else 0, True), ns)


def rt_annot_namespace(req):
    """C11: (a) a PEP 563 annotation spelled like a builtin (`int`, `str`, `object`) in a module that rebinds that name denotes
    the MODULE's object, in every retrieved and combined signature, as for the eagerly compiled twin; (b) a functools.wraps
    wrapper and the function it wraps that share ONE namespace but were compiled with different future flags (an interactive
    session after the future statement was typed; plugin code exec'd into a shared namespace): annotations inherited from
    the wrapped function are resolved by the wrapped function's rules, the wrapper's own by the wrapper's"""
    import functools
    import sigtools
    from sigtools import signatures
    problems = []
    MOD = ('class int(object): pass\nclass Marker(object): pass\nstr = Marker\n'
           'def f(a: int, b: str = None, *args: object, k: int = None, **kw: str) -> int: return a\n'
           'def g(a: int, *args, **kwargs) -> str: return f(a, *args, **kwargs)\n'
           'def outer(x: str, *args, **kwargs): return f(*args, **kwargs)\n')
    with warnings.catch_warnings():
        warnings.simplefilter('ignore')
        res = {}
        for postponed in (False, True):
            ns = {'__name__': 'c11ns_%d' % postponed}
            _exec_src(MOD, ns, '<c11-ns-%d>' % postponed, postponed)
            want = {'int': ns['int'], 'str': ns['Marker'], 'object': object}
            sigs = (('signature(f)', lambda: sigtools.signature(ns['f'])), ('signatures.signature(f)', lambda: signatures.signature(ns['f'])),
                    ('mask(f, 1)', lambda: signatures.mask(signatures.signature(ns['f']), 1)),
                    ('merge(f, f)', lambda: signatures.merge(signatures.signature(ns['f']), signatures.signature(ns['f']))),
                    ('embed(outer, f)', lambda: signatures.embed(signatures.signature(ns['outer']), signatures.signature(ns['f']))),
                    ('signature(partial(f, 1))', lambda: sigtools.signature(functools.partial(ns['f'], 1))),
                    ('signature(g) [discovery]', lambda: sigtools.signature(ns['g'])), ('signature(outer) [discovery]', lambda: sigtools.signature(ns['outer'])))
            expect = {'a': 'int', 'b': 'str', 'args': 'object', 'k': 'int', 'kw': 'str', 'x': 'str'}
            for label, mk in sigs:
                r = _try(lambda: mk().evaluated())
                if r[0] != 'ok':
                    problems.append('annotation-namespace: %s.evaluated() raised %s (module compiled %s)' % (label, r[1], 'with the future flag' if postponed else 'eagerly'))
                    continue
                for n, p in r[1].parameters.items():
                    if n in expect and p.annotation is not p.empty and p.annotation is not want[expect[n]]:
                        problems.append('annotation-namespace: %s (module compiled %s, it rebinds int and str): parameter %s: %s evaluates to %r, the module\'s %s is %r' % (
                            label, 'with the future flag' if postponed else 'eagerly', n, expect[n], p.annotation, expect[n], want[expect[n]]))
                        break
        DECO = ('import functools\n'
                'def logged(func):\n    @functools.wraps(func)\n    def wrapper(*args, **kwargs):\n        return func(*args, **kwargs)\n    return wrapper\n'
                'def logged_own(func):\n    @functools.wraps(func)\n    def wrapper(*args, **kwargs) -> Leaf:\n        return func(*args, **kwargs)\n    return wrapper\n')
        GROW = ('def grow(tree: Tree, by: int = 1, *, leaf: Leaf = None) -> Tree: return tree\n'
                'def quoted(tree: "Tree") -> "Tree": return tree\n')
        for deco_post, grow_post in ((False, True), (True, False), (True, True), (False, False)):
            class Tree(object): pass
            class Leaf(object): pass
            ns = {'__name__': 'c11shared', 'Tree': Tree, 'Leaf': Leaf}
            _exec_src(DECO, ns, '<c11-deco-%d%d>' % (deco_post, grow_post), deco_post)
            _exec_src(GROW, ns, '<c11-grow-%d%d>' % (deco_post, grow_post), grow_post)
            how = 'decorator compiled %s, function %s, ONE namespace' % ('postponed' if deco_post else 'eagerly', 'postponed' if grow_post else 'eagerly')
            for wl, w, exp in (('logged(grow)', ns['logged'](ns['grow']), {'tree': Tree, 'by': int, 'leaf': Leaf, 'return': Tree}),
                               ('logged(quoted)', ns['logged'](ns['quoted']), {'tree': 'Tree', 'return': 'Tree'})):
                for gl, get in (('sigtools.signature', sigtools.signature), ('signature(auto=False)', lambda o: sigtools.specifiers.signature(o, auto=False)),
                                ('signatures.signature', signatures.signature)):
                    r = _try(lambda: get(w).evaluated())
                    if r[0] != 'ok':
                        problems.append('shared-namespace: %s(%s).evaluated() raised %s (%s)' % (gl, wl, r[1], how))
                        continue
                    got = {n: p.annotation for n, p in r[1].parameters.items()}
                    got['return'] = r[1].return_annotation
                    bad = [(n, got.get(n), v) for n, v in exp.items() if got.get(n) is not v and got.get(n) != v]
                    if bad:
                        problems.append('shared-namespace: %s(%s) (%s): %s' % (gl, wl, how, '; '.join('%s evaluates to %r, expected %r' % b for b in bad)))
    return ('ok', tuple(problems[:5]), 'annot_namespace')


RT['annot_namespace'] = rt_annot_namespace


def rt_pok_forms_bound(req):
    """C18 / C12: a by-name modifier and a start= / end= form converting disjoint parameters of a METHOD, in both stacking
    orders: same class-level signature, same bound signature (= the class-level one without the receiver), and the bound
    method delivers every call where that signature binds it"""
    from sigtools import modifiers, specifiers
    problems = []
    pairs = (("posoargs('self', 'a')", lambda: modifiers.posoargs('self', 'a'), "kwoargs(start='c')", lambda: modifiers.kwoargs(start='c')),
             ("kwoargs('d')", lambda: modifiers.kwoargs('d'), "posoargs(end='a')", lambda: modifiers.posoargs(end='a')),
             ("kwoargs('c')", lambda: modifiers.kwoargs('c'), "kwoargs(start='d')", lambda: modifiers.kwoargs(start='d')),
             ("posoargs('self')", lambda: modifiers.posoargs('self'), "kwoargs(start='b')", lambda: modifiers.kwoargs(start='b')))
    with warnings.catch_warnings():
        warnings.simplefilter('ignore')
        for l1, d1, l2, d2 in pairs:
            seen = {}
            for order in ('first-on-top', 'second-on-top'):
                def m(self, a, b, c=3, d=4): return {'a': a, 'b': b, 'c': c, 'd': d}
                r = _try(lambda: d1()(d2()(m)) if order == 'first-on-top' else d2()(d1()(m)))
                if r[0] != 'ok':
                    problems.append('forms-bound: %s %s %s raised %s at decoration time' % (l1, 'over' if order == 'first-on-top' else 'under', l2, r[1]))
                    continue
                K = type('K', (object,), {'m': r[1]})
                inst = K()
                cs = _try(lambda: str(specifiers.signature(K.__dict__['m'])))
                bs = _try(lambda: str(specifiers.signature(inst.m)))
                bsig = _try(lambda: inspect.signature(inst.m))
                calls = []
                if bsig[0] == 'ok':
                    for args, kw in _calls(('a', 'b', 'c', 'd')):
                        def want_of():
                            ba = bsig[1].bind(*args, **kw)
                            ba.apply_defaults()
                            return dict(ba.arguments)
                        want = _try(want_of)
                        if want[0] != 'ok':
                            want = ('raised', 'TypeError')
                        got = _try(lambda: inst.m(*args, **kw))
                        if got != want:
                            problems.append('forms-bound-call: %s %s %s on a method, bound signature %s: call(*%r, **%r) -> %s, the signature says %s' % (
                                l1, 'over' if order == 'first-on-top' else 'under', l2, bs, args, kw, got, want))
                            break
                        calls.append(got)
                seen[order] = (cs, bs, calls)
            if len(seen) == 2 and seen['first-on-top'] != seen['second-on-top']:
                a_, b_ = seen['first-on-top'], seen['second-on-top']
                problems.append('forms-order: %s and %s on a method: %s over the other gives class-level %s, bound %s; the other order gives %s, %s%s' % (
                    l1, l2, l1, a_[0], a_[1], b_[0], b_[1], '' if a_[2] == b_[2] else '; the call results differ too'))
    return ('ok', tuple(problems[:5]), 'pok_forms_bound')


RT['pok_forms_bound'] = rt_pok_forms_bound


def rt_cycle_reload(req):
    """C07: (a) `__wrapped__` cycles of length two among functions that forward *args / **kwargs (hand-made, or functools.wraps
    plus one assignment): inspect.signature raises ValueError, so does every retrieval function, and the attributes are left
    as they were; (b) a function whose `__code__` (and defaults) is replaced between two retrievals — what hot reloaders do —
    is described by its definition NOW: same answer as a fresh function with that code, and only narrowing of it"""
    import functools
    import types
    import sigtools
    from sigtools import signatures
    from . import progs
    problems = []
    src = ('import functools\n'
           'def target(a, b=2): return a\n'
           'def impl(*args, **kwargs):\n    return target(*args, **kwargs)\n'
           'def api(*args, **kwargs):\n    return target(*args, **kwargs)\n'
           'api.__wrapped__ = impl\nimpl.__wrapped__ = api\n'
           'def impl2(*args, **kwargs):\n    return target(*args, **kwargs)\n'
           '@functools.wraps(impl2)\ndef api2(*args, **kwargs):\n    return target(*args, **kwargs)\n'
           'impl2.__wrapped__ = api2\n'
           'def impl3(x: int, *args, **kwargs) -> int:\n    return target(*args, **kwargs)\n'
           'def api3(y: str, *args, **kwargs) -> str:\n    return target(*args, **kwargs)\n'
           'api3.__wrapped__ = impl3\nimpl3.__wrapped__ = api3\n'
           'def backend(host, port=80): return host\n'
           'def backend2(request, retries, timeout): return request\n'
           'def handler(*args, **kwargs):\n    return backend(*args, **kwargs)\n'
           'def handler_new(request, *extra):\n    return backend2(request, *extra)\n'
           'def handler_new_twin(request, *extra):\n    return backend2(request, *extra)\n'
           'def plainf(a, b=1): return a\n'
           'def plainf_new(c, *, d): return c\n')
    mod, fname = progs.load_module(src)
    try:
        with warnings.catch_warnings():
            warnings.simplefilter('ignore')
            for nm in ('api', 'impl', 'api2', 'impl2', 'api3', 'impl3'):
                f = getattr(mod, nm)
                before = dict(vars(f))
                ref = _try(lambda: str(inspect.signature(f)))
                for gl, get in (('sigtools.signature', sigtools.signature), ('sigtools.signature(auto=False)', lambda o: sigtools.specifiers.signature(o, auto=False)),
                                ('signatures.signature', signatures.signature)):
                    got = _try(lambda: str(get(f)))
                    if ref[0] == 'raised' and got != ref:
                        problems.append('wrapped-cycle: inspect.signature(%s) raises %s for a __wrapped__ cycle of two forwarding functions, %s -> %s' % (nm, ref[1], gl, got))
                    if dict(vars(f)) != before:
                        problems.append('wrapped-cycle: %s(%s) changed the attributes of the function' % (gl, nm))
            for old, new, twin in (('handler', 'handler_new', 'handler_new_twin'), ('plainf', 'plainf_new', 'plainf_new')):
                f = getattr(mod, old)
                for auto in (True, False):
                    first = _try(lambda: str(sigtools.specifiers.signature(f, auto=auto)))
                saved = (f.__code__, f.__defaults__, f.__kwdefaults__)
                n = getattr(mod, new)
                f.__code__, f.__defaults__, f.__kwdefaults__ = n.__code__, n.__defaults__, n.__kwdefaults__
                try:
                    for auto in (True, False):
                        got = _try(lambda: str(sigtools.specifiers.signature(f, auto=auto)))
                        want = _try(lambda: str(sigtools.specifiers.signature(getattr(mod, twin), auto=auto)))
                        if got != want:
                            problems.append('code-replaced: after %s.__code__ = %s.__code__, sigtools.signature(%s, auto=%s) = %s; a function defined with that code gives %s (first retrieval: %s)' % (
                                old, new, old, auto, got, want, first))
                finally:
                    f.__code__, f.__defaults__, f.__kwdefaults__ = saved
    finally:
        progs.unload(fname)
    return ('ok', tuple(problems[:5]), 'cycle_reload')


RT['cycle_reload'] = rt_cycle_reload


_SELF_FWD = r'''
import sys, inspect
sys.path.insert(0, sys.argv[1])
import sigtools
from sigtools import modifiers
@modifiers.kwoargs('k')
def f(k=None, *args, **kwargs):
    return f(*args, **kwargs)
@modifiers.posoargs('p')
def g(p, *args, **kwargs):
    return h(*args, **kwargs)
@modifiers.autokwoargs
def h(q, flag=False, *args, **kwargs):
    return g(q, *args, **kwargs)
class C:
    @modifiers.kwoargs('k')
    def m(self, k=None, *args, **kwargs):
        return self.m(*args, **kwargs)
def t(x, y=1): return x
@modifiers.kwoargs('k')
def f2(k=None, *args, **kwargs):
    if k:
        return f2(*args, **kwargs)
    return t(*args, **kwargs)
def f1(*args, **kwargs):
    if args:
        return f0(*args, **kwargs)
    return f2(*args, **kwargs)
def f0(*args, **kwargs):
    return f1(*args, **kwargs)
for label, o in (('f', f), ('g', g), ('h', h), ('C().m', C().m), ('f2', f2), ('f1', f1), ('f0', f0)):
    print(label, '|', inspect.signature(o), '|', sigtools.signature(o), flush=True)
'''


def rt_self_forwarding_hint(req):
    """C07 (totality): a modifiers-decorated function that forwards to itself, directly or through another decorated function:
    sigtools.signature answers (what inspect.signature answers).  Run in a child process under a time limit: on the code
    before repair D88 the retrieval does not return."""
    import subprocess
    import sys
    import tempfile
    import os
    from . import core
    problems = []
    with tempfile.NamedTemporaryFile('w', suffix='_selffwd.py', delete=False) as fh:
        fh.write(_SELF_FWD)
        path = fh.name
    try:
        try:
            r = subprocess.run([sys.executable, '-W', 'ignore', path, core.REPO], capture_output=True, text=True, timeout=12, stdin=subprocess.DEVNULL)
            lines = [l.split(' | ') for l in r.stdout.strip().split('\n') if l]
            if r.returncode != 0:
                problems.append('self-forwarding-decorated: the retrieval raised: %s' % (r.stderr.strip().split('\n')[-1][:200],))
            elif len(lines) != 7 or any(len(l) != 3 for l in lines) or any(l[1] != l[2] for l in lines if l[0] in ('f', 'C().m')):
                problems.append('self-forwarding-decorated: inspect / sigtools answers %r' % (lines,))
        except subprocess.TimeoutExpired as e:
            done = (e.stdout or b'').decode() if isinstance(e.stdout, bytes) else (e.stdout or '')
            problems.append('self-forwarding-decorated: sigtools.signature of a kwoargs/posoargs/autokwoargs-decorated function that forwards to itself did not return within 12 s (answered so far: %r)' % (
                done.strip().split('\n')[-1:],))
    finally:
        os.unlink(path)
    return ('ok', tuple(problems), 'self_forwarding_hint')


RT['self_forwarding_hint'] = rt_self_forwarding_hint


class _NA(object):
    def __eq__(self, other): return self
    def __ne__(self, other): return self
    def __bool__(self): raise TypeError('boolean value of NA is ambiguous')
    __hash__ = object.__hash__
    def __repr__(self): return 'NA'


class _EqRaises(object):
    def __eq__(self, other): raise TypeError('cannot compare')
    __hash__ = object.__hash__
    def __repr__(self): return 'EQRAISES'


def rt_na_defaults(req):
    """C15 / C07: defaults and annotations whose `==` gives an object without a truth value (pandas.NA, numpy arrays) or raises
    TypeError are legal: merge / embed / forwards of signatures carrying them return or raise ValueError, and discovery over two
    call sites whose callees carry them answers"""
    import sigtools
    from sigtools import signatures
    from . import progs
    problems = []
    src = ('from %s import _NA, _EqRaises\nNA = _NA()\nER = _EqRaises()\n' % __name__ +
           'def a(x=NA, *, k: NA = 1): pass\ndef b(x=0, *, k: ER = 1): pass\ndef c(x=ER, *, k: NA = 1): pass\ndef d(x=NA, *, k: NA = 2): pass\n'
           'def either(flag, *args, **kwargs):\n    if flag:\n        return a(*args, **kwargs)\n    return b(*args, **kwargs)\n'
           'def either2(flag, *args, **kwargs):\n    if flag:\n        return c(*args, **kwargs)\n    return a(*args, **kwargs)\n'
           'def same(flag, *args, **kwargs):\n    if flag:\n        return a(*args, **kwargs)\n    return d(*args, **kwargs)\n'
           'def outer(o, *args, **kwargs): pass\n')
    mod, fname = progs.load_module(src)
    try:
        with warnings.catch_warnings():
            warnings.simplefilter('ignore')
            S = signatures.signature
            for label, op in (('merge(a, b)', lambda: signatures.merge(S(mod.a), S(mod.b))), ('merge(a, c)', lambda: signatures.merge(S(mod.a), S(mod.c))),
                              ('merge(a, a)', lambda: signatures.merge(S(mod.a), S(mod.a))), ('merge(a, d, b)', lambda: signatures.merge(S(mod.a), S(mod.d), S(mod.b))),
                              ('embed(outer, a)', lambda: signatures.embed(S(mod.outer), S(mod.a))), ('forwards(outer, c)', lambda: signatures.forwards(S(mod.outer), S(mod.c))),
                              ('mask(a, 0, "k")', lambda: signatures.mask(S(mod.a), 0, 'k'))):
                r = _try(op)
                if r[0] != 'ok' and r[1] != 'ValueError' and r[1] != 'IncompatibleSignatures':
                    problems.append('truthless-eq: %s, with defaults / annotations whose == has no truth value or raises TypeError, raised %s' % (label, r[1]))
            r = _try(lambda: signatures.merge(S(mod.a), S(mod.d)))
            if r[0] == 'ok' and r[1].parameters['x'].default is not mod.NA:
                problems.append('truthless-eq: merge(a, d): both have the very same default object for x, the result has %r' % (r[1].parameters['x'].default,))
            for nm in ('either', 'either2', 'same'):
                f = getattr(mod, nm)
                i = _try(lambda: str(inspect.signature(f)))
                r = _try(lambda: str(sigtools.signature(f)))
                if i[0] == 'ok' and r[0] != 'ok':
                    problems.append('retrieval-raises: sigtools.signature(%s) raised %s although inspect.signature succeeds (the two callees have defaults / annotations whose == has no truth value)' % (nm, r[1]))
    finally:
        progs.unload(fname)
    return ('ok', tuple(problems[:5]), 'na_defaults')


RT['na_defaults'] = rt_na_defaults


# ----------------------------------------------------------------------------- stream `examine` (Model/Examine.lean)
OPS = {}
_EX_COUNT = [0]


def line(req):
    _, n, f, succ, hinted = req
    return 'examine %d %d %s %s' % (n, f, '.'.join(str(x) for x in succ), '.'.join('1' if h else '0' for h in hinted))


def parse_model(req, ml):
    toks = ml.split()
    if toks[0] == 'ok':
        return ('ok', toks[1] if len(toks) > 1 else '')
    return ('err', toks[1])


def real_examine(req):
    """the calls of `_autoforwards._examine_once` (function, depth of the guard stack, outcome) during
    sigtools.signature(f_i), for a module whose functions forward *args / **kwargs to one another as the graph says"""
    import sigtools
    from sigtools import _autoforwards as AF
    from . import progs
    _, n, f, succ, hinted = req
    L = ['from sigtools import modifiers', 'def t(x, y=1): return x']
    for i, (s_, h) in enumerate(zip(succ, hinted)):
        callee = 't' if s_ >= n else 'f%d' % s_
        if h:
            L += ["@modifiers.kwoargs('k%d')" % i, 'def f%d(k%d=None, *args, **kwargs):' % (i, i), '    return %s(*args, **kwargs)' % callee]
        else:
            L += ['def f%d(*args, **kwargs):' % i, '    return %s(*args, **kwargs)' % callee]
    mod, fname = progs.load_module('\n'.join(L) + '\n')
    log = []
    orig = AF._examine_once

    def traced(func, args, kwargs, examine):
        nm = getattr(func, '__name__', '?')
        nm = 't' if nm == 't' else nm[1:]
        log.append('E%s@%d' % (nm, len(AF._being_examined.__dict__.get('funcs', []))))
        try:
            r = orig(func, args, kwargs, examine)
        except AF.UnknownForwards:
            log.append('U' + nm)
            raise
        log.append('K' + nm)
        return r
    AF._examine_once = traced
    try:
        with warnings.catch_warnings():
            warnings.simplefilter('ignore')
            sigtools.signature(getattr(mod, 'f%d' % f))
    finally:
        AF._examine_once = orig
        progs.unload(fname)
    return ('ok', ','.join(log))


OPS['examine'] = real_examine


def rt_pok_remarks(req):
    """C12 / C18 (remarks of round-9 sub-agents, D90–D92): an unknown start= / end= name is a ValueError also for callables without
    `__name__`; explicit names given next to end= that binding consumes (`posoargs('self', end='a')` on a method) leave the bound
    method advertising and enforcing the rest; a form whose whole selection binding consumed (`posoargs(end='self')`) does not
    keep the instances it was retrieved through alive"""
    import functools
    import gc
    import weakref
    from sigtools import modifiers
    which = req[1] if len(req) > 1 else 'all'
    problems = []

    def h(a, b): return a, b
    with warnings.catch_warnings():
        warnings.simplefilter('ignore')
        if which in ('all', 'c12'):
            for label, mk in (("kwoargs(start='zz') over functools.partial(h)", lambda: modifiers.kwoargs(start='zz')(functools.partial(h))),
                              ("posoargs(end='zz') over functools.partial(h)", lambda: modifiers.posoargs(end='zz')(functools.partial(h))),
                              ("kwoargs(start='zz') over h", lambda: modifiers.kwoargs(start='zz')(h)), ("posoargs(end='zz') over h", lambda: modifiers.posoargs(end='zz')(h))):
                r = _try(mk)
                if r != ('raised', 'ValueError'):
                    problems.append('unknown-name-not-ValueError: %s -> %s' % (label, r))

            class D:
                @modifiers.posoargs('self', end='a')
                def m(self, a, b): return (a, b)

                @modifiers.posoargs('self', 'a', end='b')
                def n(self, a, b, c=3): return (a, b, c)
            for nm, want, call, res in (('m', '(a, /, b)', ((1,), {'b': 2}), (1, 2)), ('n', '(a, b, /, c=3)', ((1, 2), {'c': 5}), (1, 2, 5))):
                s = _try(lambda: str(inspect.signature(getattr(D(), nm))))
                if s != ('ok', want):
                    problems.append("explicit-names-with-end: posoargs('self', …, end=…) on method %s: the bound signature is %s, expected %s" % (nm, s, want))
                    continue
                r = _try(lambda: getattr(D(), nm)(*call[0], **call[1]))
                bad = _try(lambda: getattr(D(), nm)(a=1, b=2))
                if r != ('ok', res) or bad != ('raised', 'TypeError'):
                    problems.append("explicit-names-with-end: method %s: call -> %s, keyword call of a positional-only parameter -> %s" % (nm, r, bad))
        if which in ('all', 'c18'):
            for label, deco in (("posoargs(end='self')", lambda: modifiers.posoargs(end='self')), ("posoargs('self')", lambda: modifiers.posoargs('self')),
                                ("kwoargs(start='a')", lambda: modifiers.kwoargs(start='a')), ("posoargs(end='a')", lambda: modifiers.posoargs(end='a'))):
                def m(self, a, b=1): return a
                K = type('K', (object,), {'m': deco()(m)})
                c = K()
                c.m
                inspect.signature(c.m)
                r = weakref.ref(c)
                del c
                gc.collect()
                if r() is not None:
                    problems.append('instance-retained: %s on a method: an instance whose method was looked up is still alive after its last reference went away' % label)
    return ('ok', tuple(problems[:5]), 'pok_remarks')


RT['pok_remarks'] = rt_pok_remarks
RT['pok_remarks_c12'] = lambda req: rt_pok_remarks(('rt:pok_remarks', 'c12'))
RT['pok_remarks_c18'] = lambda req: rt_pok_remarks(('rt:pok_remarks', 'c18'))


class _OddEq(object):
    def __eq__(self, other): return 'yes'
    def __hash__(self): return 1
    def __repr__(self): return 'ODD'


class _ArrayLike(object):
    def __eq__(self, other): return self
    def __ne__(self, other): return self
    def __bool__(self): raise ValueError('truth value of an array is ambiguous')
    __hash__ = object.__hash__
    def __repr__(self): return 'ARR'


def rt_eq_odd_annotations(req):
    """C14: comparison of returned objects whose annotations have an unusual `==` (NaN: not equal to itself; an `__eq__` that
    returns a non-bool; an array-like whose result has no truth value): `p == p` and `s == s` are True, `==` / `!=` between two
    retrievals of the same function return the bools plain inspect objects return, and never raise"""
    from sigtools import signatures
    import sigtools
    problems = []
    nan = float('nan')
    odd, arr = _OddEq(), _ArrayLike()

    def f(a: nan, b: odd = 1) -> nan: pass

    def g(a) -> odd: pass

    def h(a: arr) -> arr: pass
    with warnings.catch_warnings():
        warnings.simplefilter('ignore')
        for fl, fn in (('f (NaN annotations)', f), ('g (-> an object whose == returns a str)', g), ('h (array-like annotations)', h)):
            for gl, get in (('signatures.signature', signatures.signature), ('sigtools.signature', sigtools.signature)):
                s1, s2 = get(fn), get(fn)
                i1, i2 = inspect.signature(fn), inspect.signature(fn)
                for label, mine, ref in (('s == s', lambda: s1 == s1, lambda: i1 == i1), ('s == s2', lambda: s1 == s2, lambda: i1 == i2),
                                         ('s != s2', lambda: s1 != s2, lambda: i1 != i2), ('s != s', lambda: s1 != s1, lambda: i1 != i1),
                                         ('p == p', lambda: s1.parameters['a'] == s1.parameters['a'], lambda: i1.parameters['a'] == i1.parameters['a']),
                                         ('p != p', lambda: s1.parameters['a'] != s1.parameters['a'], lambda: i1.parameters['a'] != i1.parameters['a']),
                                         ('hash(s) == hash(s2)', lambda: hash(s1) == hash(s2), lambda: hash(i1) == hash(i2))):
                    got, want = _try(mine), _try(ref)
                    if want[0] == 'ok' and isinstance(want[1], bool) and not (got[0] == 'ok' and isinstance(got[1], bool) and got[1] == want[1]):
                        problems.append('odd-annotation-eq: %s of %s: %s -> %r, plain inspect objects -> %r' % (gl, fl, label, got, want))
    return ('ok', tuple(problems[:6]), 'eq_odd_annotations')


RT['eq_odd_annotations'] = rt_eq_odd_annotations


def rt_graph_totality(req):
    """C07 (totality) beyond the functional graphs of stream `examine`: random call graphs in which every function forwards its
    stars to one, two or three others (or to a terminal function) on different branches, plain or modifiers-decorated, functions
    and methods: every retrieval returns within a time limit (SIGALRM) with a signature, and the number of guarded examinations
    stays small.  Seeded by the request."""
    import random
    import signal
    import sigtools
    from sigtools import _autoforwards as AF
    from . import progs
    seed = req[1] if len(req) > 1 else 0
    rng = random.Random(seed * 7919 + 13)
    problems = []

    class _Timeout(BaseException):
        pass

    def on_alarm(signum, frame):
        raise _Timeout()
    count = [0]
    orig = AF._examine_once

    def counted(func, args, kwargs, examine):
        count[0] += 1
        return orig(func, args, kwargs, examine)
    for g in range(40):
        n = rng.randint(2, 8)
        L = ['from sigtools import modifiers', 'def t(x, y=1): return x', 'class C(object):', '    pass']
        decos = ("@modifiers.kwoargs('k%d')", "@modifiers.autokwoargs", "@modifiers.posoargs('p%d')")
        for i in range(n):
            outs = [rng.choice(['t'] + ['f%d' % j for j in range(n)]) for _ in range(rng.randint(1, 3))]
            d = rng.choice((None, None) + decos)
            own = 'p%d, k%d=None, ' % (i, i) if d else ''
            if d:
                L.append(d % i if '%d' in d else d)
            L.append('def f%d(%s*args, **kwargs):' % (i, own))
            for b, o in enumerate(outs[:-1]):
                L.append('    if %s: return %s(*args, **kwargs)' % ('k%d == %d' % (i, b) if d else 'len(args) == %d' % b, o))
            L.append('    return %s(*args, **kwargs)' % outs[-1])
        mod, fname = progs.load_module('\n'.join(L) + '\n')
        old = signal.signal(signal.SIGALRM, on_alarm)
        AF._examine_once = counted
        try:
            for i in range(n):
                count[0] = 0
                signal.alarm(10)
                try:
                    with warnings.catch_warnings():
                        warnings.simplefilter('ignore')
                        s = sigtools.signature(getattr(mod, 'f%d' % i))
                    signal.alarm(0)
                    if count[0] > 4000:
                        problems.append('graph-examinations: %d guarded examinations for one retrieval in a graph of %d functions (seed %s, graph %d, f%d)' % (count[0], n, seed, g, i))
                except _Timeout:
                    problems.append('graph-did-not-return: sigtools.signature(f%d) did not return within 10 s in a call graph of %d functions (seed %s, graph %d)\n%s' % (
                        i, n, seed, g, '\n'.join(L)))
                    break
                except Exception as e:  # noqa
                    signal.alarm(0)
                    i_ok = _try(lambda: inspect.signature(getattr(mod, 'f%d' % i)))
                    if i_ok[0] == 'ok':
                        problems.append('retrieval-raises: sigtools.signature(f%d) raised %s although inspect.signature succeeds (seed %s, graph %d)\n%s' % (
                            i, type(e).__name__, seed, g, '\n'.join(L)))
        finally:
            signal.alarm(0)
            signal.signal(signal.SIGALRM, old)
            AF._examine_once = orig
            progs.unload(fname)
        if problems:
            break
    return ('ok', tuple(problems[:2]), 'graph_totality')


RT['graph_totality'] = rt_graph_totality
for _i in range(3):
    RT['graph_totality_%d' % _i] = (lambda i: lambda req: rt_graph_totality(('rt:graph_totality', i)))(_i)


def rt_nonlocal_intermediate(req):
    """C05, last sentence ("captured via nonlocal"): a `nonlocal kwargs` two levels down, below an intermediate function that merely
    READ `kwargs`, rebinds the wrapper's **kwargs all the same (Python binds `nonlocal` to the nearest scope that BINDS the name):
    the callee's keyword parameters must not be advertised (recorded finding D97 on the unchanged tree)"""
    import sigtools
    from sigtools import signatures
    from . import progs
    problems = []
    src = ('def inner(x, y, *, z): return x\n'
           'def r4(a, *args, **kwargs):\n    def l1():\n        x = kwargs\n        def l2():\n            nonlocal kwargs\n            kwargs = {}\n        l2()\n    l1()\n'
           '    return inner(*args, **kwargs)\n'
           'def control(a, *args, **kwargs):\n    def l1():\n        def l2():\n            nonlocal kwargs\n            kwargs = {}\n        l2()\n    l1()\n'
           '    return inner(*args, **kwargs)\n')
    mod, fname = progs.load_module(src)
    try:
        with warnings.catch_warnings():
            warnings.simplefilter('ignore')
            for nm in ('control', 'r4'):
                f = getattr(mod, nm)
                sig = sigtools.signature(f)
                if str(sig) == str(signatures.signature(f)):
                    continue
                adv = [n for n, p in sig.parameters.items() if n in ('x', 'y', 'z') and p.kind.name in ('POSITIONAL_OR_KEYWORD', 'KEYWORD_ONLY')]
                r = _try(lambda: f(0, 1, 2, z=3))
                if adv and r == ('raised', 'TypeError'):
                    problems.append('nonlocal-through-intermediate-missed: %s rebinds **kwargs by `nonlocal` two levels down%s, yet sigtools.signature = %s advertises %s of the callee and the accepted call (0, 1, 2, z=3) raises TypeError' % (
                        nm, ' below a function that merely read kwargs' if nm == 'r4' else '', sig, adv))
    finally:
        progs.unload(fname)
    return ('ok', tuple(problems[:3]), 'nonlocal_intermediate')


RT['nonlocal_intermediate'] = rt_nonlocal_intermediate


def rt_annotate_bound_cache(req):
    """C18 ("applying annotate after a keyword/positional modifier updates what that modifier advertises", history
    independence): after `annotate` was applied to a class-level modifiers wrapper, the method looked up on an instance
    that had been asked before advertises the annotation at once — with the cyclic collector switched off, so that the
    answer cannot depend on whether a collection happened in between (D98)"""
    import gc
    from sigtools import modifiers, specifiers
    problems = []
    was = gc.isenabled()
    gc.disable()
    try:
        with warnings.catch_warnings():
            warnings.simplefilter('ignore')
            for dl, deco in (("kwoargs('b')", lambda: modifiers.kwoargs('b')), ("posoargs('self', 'a')", lambda: modifiers.posoargs('self', 'a')),
                             ('autokwoargs', lambda: modifiers.autokwoargs)):
                for held in (False, True):
                    def k(self, a, b=1): pass
                    C = type('C', (object,), {'k': deco()(k)})
                    c = C()
                    keep = c.k if held else None
                    before = str(specifiers.signature(c.k))
                    modifiers.annotate(a=int)(C.__dict__['k'])
                    cls_after = str(specifiers.signature(C.k))
                    after = str(specifiers.signature(c.k))
                    fresh = str(specifiers.signature(C().k))
                    if after != fresh or 'a: int' not in after:
                        problems.append('annotate-stale-bound: %s method, instance asked before annotate(a=int) was applied (%s): class-level %s, that instance now %s (before %s), a new instance %s' % (
                            dl, 'bound wrapper still held by the caller' if held else 'nothing held', cls_after, after, before, fresh))
    finally:
        if was:
            gc.enable()
    return ('ok', tuple(problems[:4]), 'annotate_bound_cache')


RT['annotate_bound_cache'] = rt_annotate_bound_cache
