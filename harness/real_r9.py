"""harness/real_r9.py — probes added in session 9 (run on the real code only; answer ('ok', problems, label))

  pok_receiver   C12: the call translation of kwoargs / posoargs / autokwoargs for functions whose parameters are named like the
                 translator's own locals (`self`, `args`, `kwargs`, `func`, …) and for decorated callables without `__name__`
                 (functools.partial objects, instances with `__call__`): the decorated callable accepts exactly the calls its
                 advertised signature binds, delivers the values there, and rejects the rest with TypeError (D83, D84)
"""
import functools
import inspect
import itertools
import warnings

RT = {}


def _try(fn):
    try:
        return ('ok', fn())
    except BaseException as e:   # noqa
        return ('raised', type(e).__name__)


def _calls(names):
    """call shapes with distinguishable values over the names: k positionals, then every subset of the others by keyword,
    plus one call that leaves a name out and one with a foreign keyword"""
    n = len(names)
    for k in range(0, n + 1):
        rest = names[k:]
        for r in range(0, len(rest) + 1):
            for kws in itertools.combinations(rest, r):
                yield tuple('P%d' % i for i in range(k)), {kw: 'K' + kw for kw in kws}
    yield tuple('P%d' % i for i in range(n + 1)), {}
    yield (), {'zz_foreign': 1}


def rt_pok_receiver(req):
    from sigtools import modifiers
    problems = []
    odd_names = ('self', 'args', 'kwargs', 'func', 'cls', 'intersect', 'missing')
    with warnings.catch_warnings():
        warnings.simplefilter('ignore')
        for n1, n2 in itertools.permutations(odd_names, 2):
            if (odd_names.index(n1) + odd_names.index(n2)) % 3 and 'self' not in (n1, n2):
                continue
            ns = {}
            exec('def f(%s, %s, c=3): return {%r: %s, %r: %s, "c": c}' % (n1, n2, n1, n1, n2, n2), ns)
            f = ns['f']
            decos = (('kwoargs(%r)' % n2, lambda f: modifiers.kwoargs(n2)(f)), ('kwoargs(%r, "c")' % n1, lambda f: modifiers.kwoargs(n1, 'c')(f)),
                     ('posoargs(%r)' % n1, lambda f: modifiers.posoargs(n1)(f)), ('autokwoargs', modifiers.autokwoargs),
                     ('kwoargs(start=%r)' % n2, lambda f: modifiers.kwoargs(start=n2)(f)), ('posoargs(end=%r)' % n1, lambda f: modifiers.posoargs(end=n1)(f)))
            for dl, deco in decos:
                g = _try(lambda: deco(f))
                if g[0] != 'ok':
                    problems.append('odd-name-decoration: %s over def f(%s, %s, c=3) raised %s' % (dl, n1, n2, g[1]))
                    continue
                g = g[1]
                sig = inspect.signature(g)
                for args, kw in _calls((n1, n2, 'c')):
                    want = _try(lambda: dict(sig.bind(*args, **kw).arguments))
                    if want[0] == 'ok':
                        want[1].setdefault('c', 3)
                        want = ('ok', want[1])
                    else:
                        want = ('raised', 'TypeError')
                    got = _try(lambda: g(*args, **kw))
                    if got != want:
                        problems.append('odd-name-call: %s over def f(%s, %s, c=3), advertised %s: call(*%r, **%r) -> %s, the advertised signature says %s' % (
                            dl, n1, n2, sig, args, kw, got, want))
                        break
        # decorated callables that have no __name__
        def base(a, b, c=3): return {'a': a, 'b': b, 'c': c}

        class Obj:
            def __call__(self, a, b, c=3): return {'a': a, 'b': b, 'c': c}

        class Meth:
            def m(self, a, b, c=3): return {'a': a, 'b': b, 'c': c}
        for ol, obj in (('functools.partial(base)', functools.partial(base)), ('an instance with __call__', Obj()),
                        ('a bound method', Meth().m), ('partial(base, c=5)', functools.partial(base, c=5))):
            dflt_c = 5 if 'c=5' in ol else 3
            for dl, deco in (('kwoargs("b")', modifiers.kwoargs('b')), ('kwoargs("b", "c")', modifiers.kwoargs('b', 'c')), ('posoargs("a")', modifiers.posoargs('a')),
                             ('kwoargs(start="b")', modifiers.kwoargs(start='b'))):
                g = _try(lambda: deco(obj))
                if g[0] != 'ok':
                    problems.append('nameless-decoration: %s over %s raised %s' % (dl, ol, g[1]))
                    continue
                g = g[1]
                sig = inspect.signature(g)
                for args, kw in _calls(('a', 'b', 'c')):
                    want = _try(lambda: dict(sig.bind(*args, **kw).arguments))
                    if want[0] == 'ok':
                        want[1].setdefault('c', dflt_c)
                        want = ('ok', want[1])
                    else:
                        want = ('raised', 'TypeError')
                    got = _try(lambda: g(*args, **kw))
                    if got != want:
                        problems.append('nameless-call: %s over %s, advertised %s: call(*%r, **%r) -> %s, the advertised signature says %s' % (
                            dl, ol, sig, args, kw, got, want))
                        break
    odd = [p for p in problems if p.startswith('odd-')][:3]
    return ('ok', tuple(odd + [p for p in problems if not p.startswith('odd-')][:3]), 'pok_receiver')


RT['pok_receiver'] = rt_pok_receiver
