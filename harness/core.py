"""harness/core.py — shared by every check.

* imports the *real* sigtools from /repo's working tree (sys.path[0]), records file hashes
* token tables (names, defaults, annotations, callables) shared with the Lean driver
* descriptors -> real UpgradedSignature objects; real results -> canonical protocol lines
* the Lean driver as a batch subprocess
* the signature universe and call shapes

Descriptor of a parameter: (name:str, kind:str in po/pk/vp/ko/vk, dflt:int|None, ann:int|None,
uann: 'e' | ('p', tok) | ('q', tok, fnid)).  Default token 0 is Python None, k>0 is int k.
Annotation tokens: even -> a pre-evaluated object Ann(k); odd -> the postponed spelling 'T<k>'.
Descriptor of a signature: dict(params=[...], fn=int, src=None|{name:[fn..]}, depths=None|{fn:d},
ret=None|tok, uret=uann).  src/depths None means default_sources(sig, fn).
"""
import os, sys, hashlib, itertools, subprocess, json, random, time, warnings

REPO = os.environ.get('SIGTOOLS_REPO', '/repo')
VERIF = os.path.dirname(os.path.dirname(os.path.abspath(__file__)))
if sys.path[0] != REPO:
    sys.path.insert(0, REPO)
os.environ.setdefault('SIGTOOLS_VERIF', '1')

import inspect
from inspect import Parameter as IP
import sigtools  # noqa: E402  (from REPO)
from sigtools import _signatures as S, signatures, _util  # noqa: E402

assert os.path.realpath(os.path.dirname(os.path.dirname(sigtools.__file__))) == os.path.realpath(REPO), \
    "sigtools was not imported from %s but from %s" % (REPO, sigtools.__file__)

DRIVER = os.path.join(VERIF, 'lean', '.lake', 'build', 'bin', 'driver')

KINDS = {'po': IP.POSITIONAL_ONLY, 'pk': IP.POSITIONAL_OR_KEYWORD, 'vp': IP.VAR_POSITIONAL,
         'ko': IP.KEYWORD_ONLY, 'vk': IP.VAR_KEYWORD}
KIND_NAME = {v: k for k, v in KINDS.items()}


def tree_hashes():
    out = {}
    d = os.path.join(REPO, 'sigtools')
    for fn in sorted(os.listdir(d)):
        if fn.endswith('.py'):
            with open(os.path.join(d, fn), 'rb') as f:
                out['sigtools/' + fn] = hashlib.sha256(f.read()).hexdigest()[:16]
    return out


# ----------------------------------------------------------------------------- tokens
class _Names:
    """name <-> nat.  Fixed pool first so that ids are stable across runs."""
    POOL = ['a', 'b', 'c', 'd', 'e', 'f', 'x', 'y', 'z', 'w',
            'args', 'kwargs', 'p', 'k', 'self', 'func', 'zz', 'u', 'v', 'q',
            'sub']     # 21 = Proto.subName in Model/Protocol.lean: the name of every nested definition of a generated program

    def __init__(self):
        self.ids = {n: i + 1 for i, n in enumerate(self.POOL)}
        self.rev = {i: n for n, i in self.ids.items()}

    def id(self, name):
        if name not in self.ids:
            i = len(self.ids) + 1
            self.ids[name] = i
            self.rev[i] = name
        return self.ids[name]

    def name(self, i):
        return self.rev[i]


NAMES = _Names()


class Fn:
    """A stand-in callable used as a provenance source (hashable, has __globals__)."""
    _reg = {}

    def __new__(cls, n):
        if n in cls._reg:
            return cls._reg[n]
        o = super().__new__(cls)
        o.n = n
        o.__globals__ = {}
        cls._reg[n] = o
        return o

    def __repr__(self):
        return 'F%d' % self.n


_EXTRA_FIDS = {}   # id(obj) -> (fid, obj)   for partial objects and other real callables


def register_callable(obj, fid):
    _EXTRA_FIDS[id(obj)] = (fid, obj)


def fid(obj):
    if isinstance(obj, Fn):
        return obj.n
    e = _EXTRA_FIDS.get(id(obj))
    if e is not None and e[1] is obj:
        return e[0]
    import types
    if isinstance(obj, types.MethodType):
        return 1000 + fid(obj.__func__)       # a bound method of a registered function
    raise CanonError('unknown callable in provenance: %r' % (obj,))


class Ann:
    """A pre-evaluated annotation value (even token)."""
    _reg = {}

    def __new__(cls, k):
        if k in cls._reg:
            return cls._reg[k]
        o = super().__new__(cls)
        o.k = k
        cls._reg[k] = o
        return o

    def __repr__(self):
        return 'A%d' % self.k


class CanonError(Exception):
    pass


class _FreshInt(int):
    """an int that is a new object every time: default values that are equal but not identical, so that a
    conciliation written with `is` instead of `==` shows (small ints are shared objects in CPython)"""
    __slots__ = ()

    def __bool__(self):
        # defaults with an even token are FALSY objects (like 0, '', (), False): a conciliation or a partial-bound default
        # written with `x or y` / `if default:` instead of a comparison with the `empty` sentinel shows
        return int(self) % 2 == 1


def dflt_obj(tok):
    return None if tok == 0 else _FreshInt(tok)


def dflt_tok(obj):
    if obj is None:
        return 0
    if isinstance(obj, int) and not isinstance(obj, bool) and obj > 0:
        return int(obj)
    raise CanonError('unexpected default %r' % (obj,))


def ann_obj(tok):
    return ('T%d' % tok) if tok % 2 else Ann(tok)


def ann_tok(obj):
    if isinstance(obj, Ann):
        return obj.k
    if isinstance(obj, str) and obj.startswith('T') and obj[1:].isdigit():
        return int(obj[1:])
    raise CanonError('unexpected annotation %r' % (obj,))


def uann_obj(u):
    if u == 'e':
        return S.EmptyAnnotation
    if u[0] == 'p':
        return S._PreEvaluatedAnnotation(ann_obj(u[1]))
    return S._PostponedAnnotation(ann_obj(u[1]), Fn(u[2]))


def uann_str(ua):
    if ua is S.EmptyAnnotation or isinstance(ua, S._EmptyAnnotation):
        return 'e'
    if isinstance(ua, S._PreEvaluatedAnnotation):
        return 'p%d' % ann_tok(ua._annotation)
    if isinstance(ua, S._PostponedAnnotation):
        return 'q%d.%d' % (ann_tok(ua._raw_annotation), fid(ua._function))
    raise CanonError('unexpected upgraded annotation %r' % (ua,))


def uann_desc_str(u):
    if u == 'e':
        return 'e'
    if u[0] == 'p':
        return 'p%d' % u[1]
    return 'q%d.%d' % (u[1], u[2])


# ----------------------------------------------------------------------------- descriptors
def P(name, kind, dflt=None, ann=None, uann='e'):
    return (name, kind, dflt, ann, uann)


def D(params, fn=1, src=None, depths=None, ret=None, uret='e'):
    return dict(params=list(params), fn=fn, src=src, depths=depths, ret=ret, uret=uret)


def desc_src(d):
    if d['src'] is not None:
        return d['src'], d['depths'] or {}
    return {p[0]: [d['fn']] for p in d['params']}, {d['fn']: 0}


def mk_param(p, fn):
    name, kind, dflt, ann, uann = p
    return S.UpgradedParameter(
        name, KINDS[kind],
        default=IP.empty if dflt is None else dflt_obj(dflt),
        annotation=IP.empty if ann is None else ann_obj(ann),
        upgraded_annotation=uann_obj(uann),
        function=fn, sources=[fn], source_depths={fn: 0})


_SIG_MEMO = {}


def mk_sig(d, plain=False):
    """descriptor -> real UpgradedSignature (or plain inspect.Signature when plain=True).
    Signatures are values: the object made for a descriptor is made once per process and handed to every operation that
    mentions it, so an operation that leaves hidden state behind on its inputs (a cache, an edited bucket) shows up as a
    wrong answer of a later request."""
    try:
        key = (plain, d['fn'], tuple(d['params']), d['ret'], d['uret'], repr(d.get('src')), repr(d.get('depths')))
        hash(key)
    except TypeError:
        key = None
    if key is not None:
        hit = _SIG_MEMO.get(key)
        if hit is not None:
            return hit
    sig = _mk_sig(d, plain)
    if key is not None:
        if len(_SIG_MEMO) > 50000:
            _SIG_MEMO.clear()
        _SIG_MEMO[key] = sig
    return sig


def _mk_sig(d, plain=False):
    fn = Fn(d['fn'])
    if plain:
        params = [IP(p[0], KINDS[p[1]], default=IP.empty if p[2] is None else dflt_obj(p[2]),
                     annotation=IP.empty if p[3] is None else ann_obj(p[3])) for p in d['params']]
        return inspect.Signature(params, return_annotation=IP.empty if d['ret'] is None else ann_obj(d['ret']))
    params = [mk_param(p, fn) for p in d['params']]
    src, depths = desc_src(d)
    sources = {k: [Fn(f) for f in v] for k, v in src.items()}
    sources['+depths'] = {Fn(f): v for f, v in depths.items()}
    return S.UpgradedSignature(
        params, sources=sources,
        return_annotation=IP.empty if d['ret'] is None else ann_obj(d['ret']),
        upgraded_return_annotation=uann_obj(d['uret']))


def param_line(p):
    name, kind, dflt, ann, uann = p
    return '%d:%s:%s:%s:%s' % (NAMES.id(name), kind, '-' if dflt is None else dflt,
                              '-' if ann is None else ann, uann_desc_str(uann))


def params_line(ps):
    return ','.join(param_line(p) for p in ps) if ps else '_'


def sig_line(d):
    src, depths = desc_src(d)
    s = ';'.join('%d=%s' % (NAMES.id(k), '.'.join(str(f) for f in v)) for k, v in src.items()) or '_'
    dp = ';'.join('%d=%d' % (f, v) for f, v in depths.items()) or '_'
    return '%s %s %s %s %s' % (params_line(d['params']), s, dp,
                               '-' if d['ret'] is None else d['ret'], uann_desc_str(d['uret']))


def names_line(ns):
    return '.'.join(str(NAMES.id(n)) for n in ns) if ns else '_'


# ----------------------------------------------------------------------------- canonical results
def canon_param(p):
    return (NAMES.id(p.name), KIND_NAME[p.kind],
            None if p.default is IP.empty else dflt_tok(p.default),
            None if p.annotation is IP.empty else ann_tok(p.annotation),
            uann_str(getattr(p, 'upgraded_annotation', S.EmptyAnnotation)))


def canon_sig(sig):
    """real signature -> canonical tuple ('ok', params, src, depths, ret, uret, flags)"""
    flags = []
    if not isinstance(sig, S.UpgradedSignature):
        flags.append('not-upgraded')
    for p in sig.parameters.values():
        if not isinstance(p, S.UpgradedParameter):
            flags.append('param-not-upgraded')
            break
    params = tuple(canon_param(p) for p in sig.parameters.values())
    sources = getattr(sig, 'sources', None)
    if not isinstance(sources, dict):
        flags.append('no-sources')
        sources = {}
    if '+depths' not in sources:
        flags.append('no-depths')
    src = tuple(sorted((NAMES.id(k), tuple(fid(f) for f in v)) for k, v in sources.items() if k != '+depths'))
    depths = tuple(sorted((fid(f), int(v)) for f, v in sources.get('+depths', {}).items()))
    ret = None if sig.return_annotation is IP.empty else ann_tok(sig.return_annotation)
    uret = uann_str(getattr(sig, 'upgraded_return_annotation', S.EmptyAnnotation))
    return ('ok', params, src, depths, ret, uret, tuple(flags))


def canon_exc(e):
    if isinstance(e, S.IncompatibleSignatures):
        return ('err', 'IncompatibleSignatures')
    return ('err', type(e).__name__)


def run_real(fn, *a, **k):
    try:
        with warnings.catch_warnings():
            warnings.simplefilter('ignore')
            r = fn(*a, **k)
    except CanonError:
        raise
    except Exception as e:  # noqa  — every exception class is data here
        return canon_exc(e)
    return canon_sig(r)


def parse_uann(s):
    return s


def parse_model_sig(toks):
    ps, s, d, r, u = toks[:5]
    params = []
    if ps != '_':
        for p in ps.split(','):
            n, k, df, an, ua = p.split(':')
            params.append((int(n), k, None if df == '-' else int(df), None if an == '-' else int(an), ua))
    src = []
    if s != '_':
        for e in s.split(';'):
            k, v = e.split('=')
            src.append((int(k), tuple(int(x) for x in v.split('.')) if v else ()))
    dp = []
    if d != '_':
        for e in d.split(';'):
            k, v = e.split('=')
            dp.append((int(k), int(v)))
    return ('ok', tuple(params), tuple(sorted(src)), tuple(sorted(dp)),
            None if r == '-' else int(r), u, ())


def parse_model_answer(line):
    toks = line.split()
    if not toks or toks[0] == 'bad-op':
        raise HarnessError('driver answered %r' % line)
    if toks[0] == 'err':
        return ('err', toks[1])
    if toks[0] == 'ok':
        return parse_model_sig(toks[1:])
    if toks[0] in ('true', 'false'):
        return toks[0] == 'true'
    raise HarnessError('driver answered %r' % line)


class HarnessError(Exception):
    pass


def run_driver(lines):
    """lines: list[str] -> list[str] answers (same length)"""
    if not lines:
        return []
    if not os.path.exists(DRIVER):
        raise HarnessError('driver not built: %s' % DRIVER)
    r = subprocess.run([DRIVER], input='\n'.join(lines) + '\n', capture_output=True, text=True)
    if r.returncode != 0:
        raise HarnessError('driver exit %d: %s' % (r.returncode, r.stderr[:500]))
    out = r.stdout.split('\n')
    if out and out[-1] == '':
        out.pop()
    if len(out) != len(lines):
        raise HarnessError('driver returned %d answers for %d requests' % (len(out), len(lines)))
    return out


# ----------------------------------------------------------------------------- pretty
def fmt_params(params):
    """canonical params -> python-like text"""
    out = []
    prev = None
    ps = list(params)
    for i, p in enumerate(ps):
        n, k, d = p[0], p[1], p[2]
        a = p[3] if len(p) > 3 else None
        nm = NAMES.name(n) if isinstance(n, int) else n
        if prev == 'po' and k != 'po':
            out.append('/')
        if k == 'ko' and prev not in ('vp', 'ko'):
            out.append('*')
        t = {'vp': '*', 'vk': '**'}.get(k, '') + nm
        if a is not None:
            t += ':%s' % a
        if d is not None:
            t += '=%s' % ('None' if d == 0 else d)
        out.append(t)
        prev = k
    if prev == 'po':
        out.append('/')
    return '(' + ', '.join(out) + ')'


def fmt_desc(d):
    return fmt_params(d['params'])


# ----------------------------------------------------------------------------- shape-level acceptance
def accepts(params, n, kws):
    """CPython binding on shapes.  params: iterable of (name, kind, dflt, ...) with dflt None = required.
    This mirrors Model/Bind.lean and is itself validated against real calls (stream `bind`)."""
    pos = [p for p in params if p[1] in ('po', 'pk')]
    hasva = any(p[1] == 'vp' for p in params)
    hasvk = any(p[1] == 'vk' for p in params)
    if n > len(pos) and not hasva:
        return False
    bound = set(p[0] for p in pos[:n])
    kwpass = {p[0] for p in params if p[1] in ('pk', 'ko')}
    for k in kws:
        if k in kwpass:
            if k in bound:
                return False
            bound.add(k)
        elif not hasvk:
            return False
    for p in params:
        if p[1] in ('po', 'pk', 'ko') and p[2] is None and p[0] not in bound:
            return False
    return True


def real_accepts(params, n, kws):
    """Decide acceptance by *really calling* a def with these parameters."""
    f = make_def(params)
    try:
        f(*([0] * n), **{k: 0 for k in kws})
    except TypeError:
        return False
    return True


_DEF_CACHE = {}


def def_source(params, name='f', body='return None'):
    out = []
    prev = None
    for p in params:
        n, k, d = p[0], p[1], p[2]
        if prev == 'po' and k != 'po':
            out.append('/')
        if k == 'ko' and prev not in ('vp', 'ko'):
            out.append('*')
        out.append({'vp': '*', 'vk': '**'}.get(k, '') + n + ('' if d is None else '=%r' % (dflt_obj(d),)))
        prev = k
    if prev == 'po':
        out.append('/')
    return 'def %s(%s):\n    %s\n' % (name, ', '.join(out), body)


def make_def(params, body='return None'):
    key = (tuple((p[0], p[1], p[2]) for p in params), body)
    f = _DEF_CACHE.get(key)
    if f is None:
        ns = {}
        exec(def_source(params, body=body), ns)
        f = _DEF_CACHE[key] = ns['f']
    return f


def shape(params):
    """projection used by acceptance: (name, kind, required)"""
    return tuple((p[0], p[1], p[2] is None) for p in params)


def canon_names(params):
    return [NAMES.name(p[0]) if isinstance(p[0], int) else p[0] for p in params]


def with_str_names(params):
    return [((NAMES.name(p[0]) if isinstance(p[0], int) else p[0]),) + tuple(p[1:]) for p in params]


# ----------------------------------------------------------------------------- universe
def universe(names, maxnamed, starnames=(('args', 'kwargs'),), dflt=1):
    """All valid signatures with <= maxnamed named params (names w/o repetition from `names`),
    every legal kind order and default pattern, with/without * and ** (names from starnames)."""
    out = []
    for k in range(maxnamed + 1):
        for nm in itertools.permutations(names, k):
            for kinds in itertools.product([0, 1, 2], repeat=k):
                if list(kinds) != sorted(kinds):
                    continue
                for dfl in itertools.product([0, 1], repeat=k):
                    pos = [d for kd, d in zip(kinds, dfl) if kd < 2]
                    if pos != sorted(pos):
                        continue
                    for va in [None] + [s[0] for s in starnames]:
                        for vk in [None] + [s[1] for s in starnames]:
                            ps = []
                            for n_, kd, d in zip(nm, kinds, dfl):
                                if kd < 2:
                                    ps.append(P(n_, ['po', 'pk'][kd], dflt if d else None))
                            if va:
                                ps.append(P(va, 'vp'))
                            for n_, kd, d in zip(nm, kinds, dfl):
                                if kd == 2:
                                    ps.append(P(n_, 'ko', dflt if d else None))
                            if vk:
                                ps.append(P(vk, 'vk'))
                            out.append(tuple(ps))
    return out


def call_shapes(maxn, kwpool):
    for n in range(maxn + 1):
        for r in range(len(kwpool) + 1):
            for ks in itertools.combinations(kwpool, r):
                yield n, ks


def rand_sig(rng, pool, maxnamed, starsets=(('args', 'kwargs'), ('p', 'k')), defaults=(1,), anns=(None,),
             p_star=0.5):
    k = rng.randint(0, maxnamed)
    nm = rng.sample(pool, k)
    kinds = sorted(rng.choice([0, 1, 1, 2]) for _ in range(k))
    ps = []
    seen_default = False
    st = rng.choice(starsets)
    for n_, kd in zip(nm, kinds):
        if kd < 2:
            d = seen_default or rng.random() < 0.35
            seen_default = d
            ps.append(P(n_, ['po', 'pk'][kd], rng.choice(defaults) if d else None, *_rand_ann(rng, anns)))
    if rng.random() < p_star:
        ps.append(P(st[0], 'vp'))
    for n_, kd in zip(nm, kinds):
        if kd == 2:
            ps.append(P(n_, 'ko', rng.choice(defaults) if rng.random() < 0.4 else None, *_rand_ann(rng, anns)))
    if rng.random() < p_star:
        ps.append(P(st[1], 'vk'))
    return tuple(ps)


def _rand_ann(rng, anns):
    a = rng.choice(anns)
    if a is None:
        return (None, 'e')
    return (a, ('p', a))
