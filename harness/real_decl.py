"""harness/real_decl.py — runtime part of C04: real wrappers declared with forwards_to_function /
forwards_to_method / forwards_to_super / apply_forwards_to_super, as functions and methods (on ordinary and on
*falsy* receivers), are (1) given the signature the public algebra computes from the written call and
(2) really executed on every call shape: an accepted non-colliding call must not raise an argument-binding
TypeError; when the claim is exact (no defaulted positional in the wrapper, no hide flag, no partial) a
rejected one must.
"""
import itertools, warnings, inspect
from . import core, progs
from .core import sigtools, signatures

FORMS = ('function', 'method', 'super', 'apply_super', 'super_closure', 'apply_super_shared', 'super_diamond', 'cm_emulate_cls', 'cm_emulate_inst')
# 'cm_emulate_*': an emulate=True declaration written ABOVE @classmethod, the method looked up on the class / on an instance
# 'super_diamond': the receiver's class inherits the declaring class AND a sibling, so super() reaches the sibling's method;
# a receiver of the declaring class itself is asked first (what super() finds depends on the receiver, not on the function)
# 'apply_super_shared': ONE decorator object made by apply_forwards_to_super decorates an unrelated class first, then the class under test
# 'super_closure': the class is made by a factory and the method closes over the factory's arguments (free variables that
# sort before and after `__class__`) besides the implicit `__class__` cell of the argument-less super()
RECEIVERS = ('plain', 'falsy_len', 'falsy_bool')


def _call_src(callee, n, names, uva, uvk, va, vk):
    args = ['%d' % (900 + i) for i in range(n)]
    if uva:
        args.append('*' + va)
    args += ['%s=%d' % (x, 800 + j) for j, x in enumerate(names)]
    if uvk:
        args.append('**' + vk)
    return '%s(%s)' % (callee, ', '.join(args))


def _body_record(ps, tag):
    parts = []
    for p in ps:
        if p[1] == 'vp':
            parts.append('tuple(%s)' % p[0])
        elif p[1] == 'vk':
            parts.append('tuple(sorted(%s.items()))' % p[0])
        else:
            parts.append(p[0])
    return 'return (%r, %s)' % (tag, ', '.join(parts) + (',' if len(parts) == 1 else ''))


def build(req):
    _, form, ops, ips, n, names, fl, recv = req
    uva, uvk, hide_a, hide_k, part = fl
    va = next((p[0] for p in ops if p[1] == 'vp'), None)
    vk = next((p[0] for p in ops if p[1] == 'vk'), None)
    uva = bool(uva and va)
    uvk = bool(uvk and vk)
    kw = 'use_varargs=%r, use_varkwargs=%r, hide_args=%r, hide_kwargs=%r, partial=%r' % (uva, uvk, hide_a, hide_k, part)
    decl_args = ', '.join([str(n)] + [repr(x) for x in names] + [kw])
    L = ['from sigtools import specifiers, signatures']
    ind = lambda ls: ['    ' + l for l in ls]     # noqa
    dsrc = lambda ps, name, body: core.def_source(ps, name=name, body=body).rstrip('\n').split('\n')   # noqa
    selfp = [core.P('self', 'pk')]
    truthy = {'plain': [], 'falsy_len': ['def __len__(self): return 0'], 'falsy_bool': ['def __bool__(self): return False']}[recv]
    if form == 'function':
        L += dsrc(ips, 'inner', _body_record(ips, 'inner'))
        L += ['@specifiers.forwards_to_function(inner, %s)' % decl_args]
        L += dsrc(ops, 'wrapper', 'return ' + _call_src('inner', n, names, uva, uvk, va, vk))
        L += dsrc(ops, 'wrapper_plain', 'return None')
        L += ['target = wrapper', 'own = wrapper_plain', 'callee = inner']
    elif form == 'method':
        L += ['class C(object):'] + ind(truthy)
        L += ind(dsrc(selfp + list(ips), 'inner', _body_record(ips, 'inner')))
        L += ind(["@specifiers.forwards_to_method('inner', %s)" % decl_args])
        L += ind(dsrc(selfp + list(ops), 'wrapper', 'return ' + _call_src('self.inner', n, names, uva, uvk, va, vk)))
        L += ind(dsrc(selfp + list(ops), 'wrapper_plain', 'return None'))
        L += ['inst = C()', 'target = inst.wrapper', 'own = inst.wrapper_plain', 'callee = inst.inner']
    elif form in ('cm_emulate_cls', 'cm_emulate_inst'):
        clsp = [core.P('cls', 'pk')]
        L += ['class C(object):'] + ind(truthy)
        L += ind(['@classmethod'] + dsrc(clsp + list(ips), 'inner', _body_record(ips, 'inner')))
        L += ind(["@specifiers.forwards_to_method('inner', %s, emulate=True)" % decl_args, '@classmethod'])
        L += ind(dsrc(clsp + list(ops), 'wrapper', 'return ' + _call_src('cls.inner', n, names, uva, uvk, va, vk)))
        L += ind(['@classmethod'] + dsrc(clsp + list(ops), 'wrapper_plain', 'return None'))
        recv_e = 'C' if form == 'cm_emulate_cls' else 'C()'
        L += ['inst = %s' % recv_e, 'target = inst.wrapper', 'own = inst.wrapper_plain', 'callee = inst.inner']
    elif form == 'super_closure':
        L += ['class Root(object):'] + ind(truthy)
        L += ind(dsrc(selfp + [core.P('q9', 'pk')], 'wrapper', "return ('root', q9)"))     # a decoy further up the MRO
        L += ['class Base(Root):']
        L += ind(dsrc(selfp + list(ips), 'wrapper', _body_record(ips, 'inner')))
        L += ['def make(Anchor, zeta):']
        L += ind(['class C(Anchor):'])
        L += ind(ind(['@specifiers.forwards_to_super(%s)' % decl_args]))
        L += ind(ind(dsrc(selfp + list(ops), 'wrapper',
                          'return (isinstance(self, Anchor), zeta) and ' +
                          _call_src('super().wrapper', n, names, uva, uvk, va, vk))))
        L += ind(ind(dsrc(selfp + list(ops), 'wrapper_plain', 'return None')))
        L += ind(['return C'])
        L += ['C = make(Base, 0)', 'inst = C()', 'target = inst.wrapper', 'own = inst.wrapper_plain', 'callee = super(C, inst).wrapper']
    elif form == 'super_diamond':
        L += ['class Base(object):'] + ind(truthy)
        L += ind(dsrc(selfp + list(ips), 'wrapper', _body_record(ips, 'inner')))
        L += ['class Mix(Base):']
        L += ind(dsrc(selfp + [core.P('m9', 'pk'), core.P('extra9', 'pk', 1)], 'wrapper', "return ('mix', m9, extra9)"))
        L += ['class C(Base):']
        L += ind(['@specifiers.forwards_to_super(%s)' % decl_args])
        L += ind(dsrc(selfp + list(ops), 'wrapper',
                      'return ' + _call_src('super(C, self).wrapper', n, names, uva, uvk, va, vk)))
        L += ind(dsrc(selfp + list(ops), 'wrapper_plain', 'return None'))
        L += ['class D(C, Mix):', '    pass', 'first = C()', 'import sigtools as _st', 'try:', '    _st.signature(first.wrapper)',
              'except Exception:', '    pass']
        L += ['inst = D()', 'target = inst.wrapper', 'own = inst.wrapper_plain', 'callee = super(C, inst).wrapper']
    else:
        L += ['class Base(object):'] + ind(truthy)
        L += ind(dsrc(selfp + list(ips), 'wrapper', _body_record(ips, 'inner')))
        if form == 'super':
            L += ['class C(Base):']
            L += ind(['@specifiers.forwards_to_super(%s)' % decl_args])
        elif form == 'apply_super_shared':
            L += ["deco = specifiers.apply_forwards_to_super('wrapper', num_args=%d, named_args=%r, %s)" % (n, tuple(names), kw),
                  'class Root0(object):']
            L += ind(dsrc(selfp + [core.P('q9', 'pk')], 'wrapper', "return ('root0', q9)"))
            L += ['@deco', 'class D0(Root0):']
            L += ind(dsrc(selfp + list(ops), 'wrapper', 'return None'))
            L += ['@deco', 'class C(Base):']
        else:
            L += ["@specifiers.apply_forwards_to_super('wrapper', num_args=%d, named_args=%r, %s)" % (n, tuple(names), kw),
                  'class C(Base):']
        L += ind(dsrc(selfp + list(ops), 'wrapper',
                      'return ' + _call_src('super(C, self).wrapper', n, names, uva, uvk, va, vk)))
        L += ind(dsrc(selfp + list(ops), 'wrapper_plain', 'return None'))
        L += ['inst = C()', 'target = inst.wrapper', 'own = inst.wrapper_plain', 'callee = super(C, inst).wrapper']
    return '\n'.join(L) + '\n', (uva, uvk)


def rt_declfwd(req):
    from . import oracles as O
    _, form, ops, ips, n, names, fl, recv = req
    hide_a, hide_k, part = fl[2], fl[3], fl[4]
    src, (uva, uvk) = build(req)
    problems = []
    try:
        mod, fname = progs.load_module(src)
    except ValueError as e:
        # decoration time: forwards_to_function evaluates nothing; a ValueError here is not expected
        return ('ok', ('decoration-raised: %s\n%s' % (e, src),), 'error')
    try:
        with warnings.catch_warnings():
            warnings.simplefilter('ignore')
            try:
                got = ('ok', sigtools.signature(mod.target))
            except Exception as e:  # noqa
                got = ('err', type(e).__name__)
            try:
                want_sig = signatures.forwards(signatures.signature(mod.own), signatures.signature(mod.callee), n, *names,
                                               use_varargs=uva, use_varkwargs=uvk, hide_args=hide_a, hide_kwargs=hide_k,
                                               partial=part)
                want = ('ok', str(want_sig))
            except ValueError as e:
                want = ('err', type(e).__name__)
        if want[0] == 'err':
            # an explicit declaration that cannot be honoured surfaces as ValueError (C07)
            if got[0] != 'err':
                problems.append('declared-incompatible-but-returned: forwards(...) raises %s but sigtools.signature(wrapper) returned %s\n%s' % (
                    want[1], str(got[1]), src))
            return ('ok', tuple(problems), 'raises')
        if got[0] != 'ok':
            problems.append('declared-retrieval-raised: sigtools.signature(wrapper) raised %s although forwards(...) = %s (form %s, receiver %s)\n%s' % (
                got[1], want[1], form, recv, src))
            return ('ok', tuple(problems), 'raised')
        gstr = str(got[1])
        if gstr != want[1]:
            problems.append('declared-signature-differs: sigtools.signature(wrapper) = %s, forwards(own, callee, ...) = %s (form %s, receiver %s)\n%s' % (
                gstr, want[1], form, recv, src))
            return ('ok', tuple(problems), 'differs')
        R = [(q.name, core.KIND_NAME[q.kind], None if q.default is q.empty else 1) for q in got[1].parameters.values()]
        ins = [[(p[0], p[1], p[2]) for p in ops], [(p[0], p[1], p[2]) for p in ips]]
        exact = not hide_a and not hide_k and not part and not any(p[1] in ('po', 'pk') and p[2] is not None for p in ops)
        ran = 0
        if part or hide_a or hide_k:
            # the written call does not supply what the declaration leaves out: only the signature is compared
            return ('ok', tuple(problems), 'signature-only')
        for m, K in O.shapes_for(ins + [R], foreign=('zz',), maxk=3):
            if not O.non_colliding(R, ins, K):
                continue
            a = O.acc(R, m, K)
            if not a and not exact:
                continue
            ran += 1
            try:
                mod.target(*([0] * m), **{k: 0 for k in K})
                raised = None
            except TypeError as e:
                raised = str(e)
            if a and raised is not None:
                problems.append('declared-unsound: sigtools.signature(wrapper) = %s accepts (%d,%s) but the call raises TypeError: %s (form %s, receiver %s)\n%s' % (
                    gstr, m, K, raised, form, recv, src))
                break
            if not a and raised is None:
                problems.append('declared-inexact: sigtools.signature(wrapper) = %s rejects (%d,%s) but the call runs (form %s, receiver %s)\n%s' % (
                    gstr, m, K, form, recv, src))
                break
        return ('ok', tuple(problems), 'executed:%d' % ran)
    finally:
        progs.unload(fname)


RT = {'declfwd': rt_declfwd}


# ----------------------------------------------------------------------------- C19: partials of forwarding wrappers
_PF_TEMPLATES = {
    # callee passed positionally: discovery looks through the partial using the bound positional
    'posparam': 'def w(cb, *args, **kwargs):\n    return cb(*args, **kwargs)\n',
    # callee is a defaulted keyword-only parameter that the partial does NOT bind: nothing may be resolved
    'kwdefault': 'def w(a, *args, target=DEFAULT, **kwargs):\n    return target(*args, **kwargs)\n',
    # callee bound by keyword: keywords do not resolve callee parameters
    'kwbound': 'def w(a, *args, target=DEFAULT, **kwargs):\n    return target(*args, **kwargs)\n',
    # the callee is itself a partial of a forwarding wrapper, and one more bound positional spills through *args
    'nestedpartial': 'def w1(cb1, *args, **kwargs):\n    return cb1(*args, **kwargs)\ndef w(cb, *args, **kwargs):\n    return cb(*args, **kwargs)\n',
    # callee bound by keyword to the wrapper's FIRST parameter (no unbound parameter before it): keywords still do not resolve
    'kwleading': 'def w(target, *args, **kwargs):\n    return target(*args, **kwargs)\n',
    # callee is a module global: discovery needs no bound argument at all, and must still happen
    'globnone': 'def w(a, *args, **kwargs):\n    return callee(*args, **kwargs)\n',
    'globkw': 'def w(a, *args, **kwargs):\n    return callee(*args, **kwargs)\n',
    'globpos': 'def w(a, *args, **kwargs):\n    return callee(*args, **kwargs)\n',
    # a partial object of a partial object that is NOT flattened (the inner one carries an attribute) and binds a keyword of the wrapper
    'nestedkw': 'def w(cb, a=7, *args, **kwargs):\n    return cb(*args, **kwargs)\n',
    # the wrapper is decorated with a modifier (discovery goes through its autoforwards hint): the bound positional still
    # resolves the callee, exactly as for the natively written twin wn
    'hintkwo': 'from sigtools import modifiers\n@modifiers.kwoargs("opt")\ndef w(cb, opt=None, *args, **kwargs):\n    return cb(*args, **kwargs)\n'
               'def wn(cb, *args, opt=None, **kwargs):\n    return cb(*args, **kwargs)\n',
    # the bound callee is a callable object whose truth value is False (an empty container that is callable / __bool__ False):
    # it resolves the callee exactly as its always-true twin does
    'falsylen': 'class Cb(list):\n    def __call__(self, *args, **kwargs):\n        return callee(*args, **kwargs)\n'
                'def w(cb, *args, **kwargs):\n    return cb(*args, **kwargs)\nwn = w\n',
    'falsybool': 'class Cb(object):\n    def __init__(self, t):\n        self.t = t\n    def __bool__(self):\n        return self.t\n'
                 '    def __call__(self, *args, **kwargs):\n        return callee(*args, **kwargs)\n'
                 'def w(cb, *args, **kwargs):\n    return cb(*args, **kwargs)\nwn = w\n',
    'hintposo': 'from sigtools import modifiers\n@modifiers.posoargs("cb")\ndef w(cb, *args, **kwargs):\n    return cb(*args, **kwargs)\n'
                'def wn(cb, /, *args, **kwargs):\n    return cb(*args, **kwargs)\n',
}


def rt_partialfwd(req):
    """signatures of functools.partial objects over wrappers that forward to one of their own parameters:
    every non-colliding call the reported signature accepts must run; when the callee is not bound positionally the
    signature is the plain one of the partial; the partial object has depth 0"""
    import functools
    from . import oracles as O
    _, tmpl, cps, dps, extra = req
    src = ['import functools']
    src += core.def_source(cps, name='callee', body='return ("callee",)').rstrip('\n').split('\n')
    src += core.def_source(dps, name='DEFAULT', body='return ("default",)').rstrip('\n').split('\n')
    src += _PF_TEMPLATES[tmpl].rstrip('\n').split('\n')
    if tmpl in ('posparam', 'hintkwo', 'hintposo'):
        src += ['p = functools.partial(w, callee%s)' % ''.join(', %d' % (700 + i) for i in range(extra))]
        if tmpl != 'posparam':
            src += ['pn = functools.partial(wn, callee%s)' % ''.join(', %d' % (700 + i) for i in range(extra))]
    elif tmpl == 'falsylen':
        src += ['p = functools.partial(w, Cb()%s)' % ''.join(', %d' % (700 + i) for i in range(extra)),
                'pn = functools.partial(w, Cb([1])%s)' % ''.join(', %d' % (700 + i) for i in range(extra))]
    elif tmpl == 'falsybool':
        src += ['p = functools.partial(w, Cb(False)%s)' % ''.join(', %d' % (700 + i) for i in range(extra)),
                'pn = functools.partial(w, Cb(True)%s)' % ''.join(', %d' % (700 + i) for i in range(extra))]
    elif tmpl == 'nestedkw':
        src += ['inner = functools.partial(w, callee, a=0)', 'inner.tag = "tagged"',
                'p = functools.partial(inner%s)' % ''.join(', %d' % (700 + i) for i in range(extra))]
    elif tmpl == 'kwdefault':
        src += ['p = functools.partial(w, 1%s)' % ''.join(', %d' % (700 + i) for i in range(extra))]
    elif tmpl == 'nestedpartial':
        src += ['p = functools.partial(w, functools.partial(w1, callee)%s)' % ''.join(', %d' % (700 + i) for i in range(extra))]
    elif tmpl == 'kwleading':
        src += ['p = functools.partial(w, target=callee)']
    elif tmpl == 'globnone':
        src += ['p = functools.partial(w)']
    elif tmpl == 'globkw':
        src += ['p = functools.partial(w, a=1)']
    elif tmpl == 'globpos':
        src += ['p = functools.partial(w, 1%s)' % ''.join(', %d' % (700 + i) for i in range(extra))]
    else:
        src += ['p = functools.partial(w, 1, target=callee)']
    text = '\n'.join(src) + '\n'
    mod, fname = progs.load_module(text)
    problems = []
    try:
        with warnings.catch_warnings():
            warnings.simplefilter('ignore')
            try:
                sig = sigtools.signature(mod.p)
            except Exception as e:  # noqa
                try:
                    inspect.signature(mod.p)
                except ValueError:
                    if isinstance(e, ValueError):
                        return ('ok', (), 'both-raise')         # the bound arguments do not fit: inspect says so too (C07)
                return ('ok', ('partialfwd-raises: sigtools.signature(partial) raised %s: %s\n%s' % (type(e).__name__, e, text),), 'raised')
            plain = signatures.signature(mod.p)
        if tmpl.startswith('glob'):
            # the callee is resolvable without any bound argument, so the partial is looked through whatever it binds:
            # its signature is the wrapper's discovered signature with the bound arguments taken out (partial-mode mask),
            # or the plain one when that signature cannot take them
            from sigtools import _signatures
            with warnings.catch_warnings():
                warnings.simplefilter('ignore')
                wsig = sigtools.signature(mod.w)
                try:
                    want = _signatures._mask(wsig, len(mod.p.args), False, False, False, False, mod.p.keywords or {}, mod.p)
                except ValueError:
                    want = plain
            if str(sig) != str(want):
                problems.append('partialfwd-not-looked-through: sigtools.signature(p) = %s, but the wrapper is discovered as %s, which with the '
                                'bound arguments taken out is %s\n%s' % (sig, wsig, want, text))
            R = [(q.name, core.KIND_NAME[q.kind], None if q.default is q.empty else 1) for q in sig.parameters.values()]
            ins = [[(q[0], q[1], q[2]) for q in cps], [('a', 'pk', None), ('args', 'vp', None), ('kwargs', 'vk', None)]]
            ran = 0
            if str(sig) != str(plain):
                for m, K in O.shapes_for(ins + [R], foreign=('zz',), maxk=2):
                    if not O.non_colliding(R, ins, K) or not O.acc(R, m, K):
                        continue
                    ran += 1
                    try:
                        mod.p(*([0] * m), **{k: 0 for k in K})
                    except TypeError as e:
                        problems.append('partialfwd-unsound: sigtools.signature(p) = %s accepts (%d,%s) but calling the partial raises TypeError: %s\n%s' % (
                            sig, m, K, e, text))
                        break
            return ('ok', tuple(problems[:2]), 'glob-executed:%d' % ran)
        if tmpl in ('falsylen', 'falsybool'):
            with warnings.catch_warnings():
                warnings.simplefilter('ignore')
                twin = sigtools.signature(mod.pn)
            if str(sig) != str(twin):
                problems.append('partialfwd-falsy-callee: functools.partial(w, <callable whose truth value is False>) is reported as %s, '
                                'with its always-true twin bound instead as %s\n%s' % (sig, twin, text))
        if tmpl in ('hintkwo', 'hintposo'):
            with warnings.catch_warnings():
                warnings.simplefilter('ignore')
                twin = sigtools.signature(mod.pn)
            if str(sig) != str(twin):
                problems.append('partialfwd-hint-differs: functools.partial over a modifiers-decorated forwarding wrapper is reported as %s, '
                                'over its natively written twin as %s\n%s' % (sig, twin, text))
        if tmpl == 'nestedkw':
            # what the outer partial accepts is what the inner one accepts minus the outer bound positionals
            with warnings.catch_warnings():
                warnings.simplefilter('ignore')
                isig = sigtools.signature(mod.inner)
            try:
                want = str(signatures.mask(isig, extra))
            except ValueError:
                want = None
            if want is not None and [q.name for q in sig.parameters.values()] != [q.name for q in signatures.mask(isig, extra).parameters.values()]:
                problems.append('partialfwd-nested-keyword: partial(inner%s) with inner = partial(w, callee, a=0) is reported as %s; inner alone is %s' % (
                    ', ...' if extra else '', sig, isig))
        if tmpl not in ('posparam', 'nestedpartial', 'hintkwo', 'hintposo', 'nestedkw', 'falsylen', 'falsybool') and str(sig) != str(plain):
            problems.append('partialfwd-resolved-unbound: the callee is not bound positionally, yet sigtools.signature(p) = %s differs from '
                            'signatures.signature(p) = %s\n%s' % (sig, plain, text))
        d = sig.sources['+depths'].get(mod.p)
        if d != 0:
            problems.append('partialfwd-depth: the partial object has depth %r\n%s' % (d, text))
        R = [(q.name, core.KIND_NAME[q.kind], None if q.default is q.empty else 1) for q in sig.parameters.values()]
        ins = [[(q[0], q[1], q[2]) for q in cps], [(q[0], q[1], q[2]) for q in dps],
               [('a', 'pk', None), ('cb', 'pk', None), ('args', 'vp', None), ('target', 'ko', 1), ('opt', 'ko', 1), ('kwargs', 'vk', None)]]
        ran = 0
        if str(sig) == str(plain):
            # nothing was discovered: what the callee does with the forwarded arguments is outside the claim
            return ('ok', tuple(problems[:2]), 'plain')
        for m, K in O.shapes_for(ins + [R], foreign=('zz',), maxk=2):
            if not O.non_colliding(R, ins, K) or not O.acc(R, m, K):
                continue
            ran += 1
            kw = {k: (mod.callee if k == 'target' else 0) for k in K}
            try:
                mod.p(*([0] * m), **kw)
            except TypeError as e:
                problems.append('partialfwd-unsound: sigtools.signature(p) = %s accepts (%d,%s) but calling the partial raises TypeError: %s\n%s' % (
                    sig, m, K, e, text))
                break
        return ('ok', tuple(problems[:2]), 'executed:%d' % ran)
    finally:
        progs.unload(fname)


RT['partialfwd'] = rt_partialfwd


# ----------------------------------------------------------------------------- C04: two declarations stacked on one wrapper
_STACKED_SRC = '''
from sigtools import specifiers
def f(x, y=2): return (x, y)
def f2(x, /): return (x,)
def g(*, k=1, m=0): return (k, m)
def g2(k=1): return (k,)
def g3(): return ()
%s
'''


def rt_stacked_decl(req):
    """two forwards_to_function(..., emulate=True) declarations on one wrapper, one for *args and one for **kwargs:
    sigtools.signature and inspect.signature report the embedding of both callees, and every accepted call runs"""
    import inspect
    from . import oracles as O
    problems = []
    for fa, ga in (('f', 'g'), ('f', 'g2'), ('f', 'g3'), ('f2', 'g'), ('f2', 'g3')):
        for as_method in (False, True):
            body = '''
@specifiers.forwards_to_function(%s, use_varkwargs=False, emulate=True)
@specifiers.forwards_to_function(%s, use_varargs=False, emulate=True)
def w(%sa, *args, **kwargs):
    return %s(*args), %s(**kwargs)
''' % (fa, ga, 'self, ' if as_method else '', fa, ga)
            if as_method:
                body = 'class C(object):\n' + '\n'.join('    ' + l for l in body.strip('\n').split('\n')) + '\ntarget = C().w\n'
            else:
                body += 'target = w\n'
            text = _STACKED_SRC % body
            mod, fname = progs.load_module(text)
            try:
                with warnings.catch_warnings():
                    warnings.simplefilter('ignore')
                    try:
                        sg = sigtools.signature(mod.target)
                        isg = inspect.signature(mod.target)
                    except Exception as e:  # noqa
                        problems.append('stacked-declaration-raises: %s for\n%s' % (type(e).__name__, text))
                        continue
                    own = signatures.signature(mod.target.__wrapped__.__wrapped__ if not as_method else mod.C.__dict__['w'].__wrapped__.__wrapped__)
                    inner = signatures.forwards(own, signatures.signature(getattr(mod, ga)), use_varargs=False)
                    want = signatures.forwards(inner, signatures.signature(getattr(mod, fa)), use_varkwargs=False)
                    if as_method:
                        want = signatures.mask(want, 1)
                if str(sg) != str(want) or str(isg) != str(want):
                    problems.append('stacked-declaration-differs: sigtools %s, inspect %s, the two declarations composed by hand %s for\n%s' % (
                        sg, isg, want, text))
                    continue
                R = [(q.name, core.KIND_NAME[q.kind], None if q.default is q.empty else 1) for q in sg.parameters.values()]
                for m, K in O.shapes_for([R], foreign=('zz',), maxk=2):
                    if O.acc(R, m, K):
                        try:
                            mod.target(*([0] * m), **{k: 0 for k in K})
                        except TypeError as e:
                            problems.append('stacked-declaration-unsound: %s accepts (%d,%s) but the call raises TypeError: %s\n%s' % (sg, m, K, e, text))
                            break
            finally:
                progs.unload(fname)
    return ('ok', tuple(problems[:2]), 'stacked')


RT['stacked_decl'] = rt_stacked_decl


def rt_emulate_threads(req):
    """C04 under two threads (deterministic): a function declared with forwards_to_function(inner, emulate=True) and a class
    whose instances use as_forged; thread A is parked while it computes the signature (the inner callable's __signature__ is a
    property that waits); thread B then asks inspect.signature / sigtools.signature for the same object and must get the
    declared signature, not the raw (a, *args, **kwargs) - which accepts calls that raise in inner"""
    import inspect, threading
    from sigtools import specifiers
    _, how_b = req
    inside, resume = threading.Event(), threading.Event()

    class Slow(object):
        """a callable whose signature is read through a property: user code that runs inside the computation"""
        def __call__(self, x, y=2):
            return ('inner', x, y)

        @property
        def __signature__(self):
            if threading.current_thread().name == 'A':
                inside.set()
                resume.wait(5)
            return inspect.Signature([inspect.Parameter('x', inspect.Parameter.POSITIONAL_OR_KEYWORD),
                                      inspect.Parameter('y', inspect.Parameter.POSITIONAL_OR_KEYWORD, default=2)])
    inner = Slow()

    @specifiers.forwards_to_function(inner, emulate=True)
    def wrapper(a, *args, **kwargs):
        return inner(*args, **kwargs)

    class Inst(object):
        __signature__ = specifiers.as_forged

        @specifiers.forwards_to_function(inner)
        def __call__(self, a, *args, **kwargs):
            return inner(*args, **kwargs)
    problems = []
    for label, obj in (('emulate=True function', wrapper), ('as_forged instance', Inst())):
        inside.clear(); resume.clear()
        res = {}

        def run(name):
            try:
                with warnings.catch_warnings():
                    warnings.simplefilter('ignore')
                    fn = inspect.signature if (name == 'A' or how_b == 'inspect') else sigtools.signature
                    res[name] = str(fn(obj))
            except Exception as e:  # noqa
                res[name] = 'raised ' + type(e).__name__
        ta = threading.Thread(target=run, args=('A',), name='A')
        ta.start()
        inside.wait(5)
        tb = threading.Thread(target=run, args=('B',), name='B')
        tb.start()
        tb.join(5)
        resume.set()
        ta.join(5)
        with warnings.catch_warnings():
            warnings.simplefilter('ignore')
            alone = str(inspect.signature(obj))
        for t in 'AB':
            if res.get(t) != alone:
                problems.append('declared-concurrent: %s: thread %s got %s from %s while another thread was computing the same '
                                'signature; alone it gets %s' % (label, t, res.get(t), 'inspect.signature' if (t == 'A' or how_b == 'inspect')
                                                                 else 'sigtools.signature', alone))
        if alone != '(a, x, y=2)':
            problems.append('declared-signature-differs: %s reports %s, declared (a, x, y=2)' % (label, alone))
    return ('ok', tuple(problems[:2]), 'probed')


RT['emulate_threads'] = rt_emulate_threads
