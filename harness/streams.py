"""harness/streams.py — request generators.

Every generator has the signature gen(tier, seed, ci, nc, **kw): it yields the requests of chunk
`ci` out of `nc`.  Exhaustive streams slice a fixed enumeration (index % nc == ci); random streams
derive one PRNG per chunk from (seed, stream name, ci), so a run is reproducible from VERIF_SEED.
"""
import itertools, random
from . import core
from .core import P, D

STAR_A = ('args', 'kwargs')
STAR_B = ('p', 'k')


def _rng(seed, name, ci):
    return random.Random('%s/%s/%d' % (seed, name, ci))


def _slice(it, ci, nc):
    for i, x in enumerate(it):
        if i % nc == ci:
            yield x


_U = {}


def U(names, k, stars=(STAR_A,)):
    key = (tuple(names), k, tuple(stars))
    if key not in _U:
        _U[key] = core.universe(names, k, stars)
    return _U[key]


# ----------------------------------------------------------------------------- bind
def bind(tier, seed, ci, nc):
    """the binding model against really calling def functions"""
    univ = U('ab', 2) if tier == 'quick' else U('abc', 3)
    pool = ['a', 'b', 'z', 'args', 'kwargs'] if tier == 'quick' else ['a', 'b', 'c', 'z', 'args']

    def gen():
        for ps in univ:
            npos = sum(1 for p in ps if p[1] in ('po', 'pk'))
            for n, K in core.call_shapes(npos + 2, pool):
                yield ('accepts', n, K, ps)
    return _slice(gen(), ci, nc)


# ----------------------------------------------------------------------------- sort / apply
def apply_(tier, seed, ci, nc):
    univ = U('abc', 3, (STAR_A, STAR_B)) if tier != 'quick' else U('abc', 3)

    def gen():
        for i, ps in enumerate(univ):
            yield ('apply', D(ps, fn=1, ret=(2 if i % 3 == 0 else None), uret=(('p', 2) if i % 3 == 0 else 'e')))
    return _slice(gen(), ci, nc)


# ----------------------------------------------------------------------------- mask
def _named(ps):
    return [p[0] for p in ps if p[1] in ('po', 'pk', 'ko')]


def mask_names_space(ps, foreign='z', include_po=False, include_stars=False):
    """every permutation of every duplicate-free subset of (maskable names + a foreign name)"""
    cand = [p[0] for p in ps if p[1] in ('pk', 'ko') or (include_po and p[1] == 'po') or (include_stars and p[1] in ('vp', 'vk'))] + [foreign]
    for r in range(len(cand) + 1):
        for sub in itertools.permutations(cand, r):
            yield sub


FLAGS0 = (False, False, False, False)
ALLFLAGS = list(itertools.product([False, True], repeat=4))


def mask0(tier, seed, ci, nc):
    """flags all False, exhaustive over U({a,b,c},3) x n x name tuples in every order"""
    univ = U('abc', 3)

    def gen():
        for ps in univ:
            npos = sum(1 for p in ps if p[1] in ('po', 'pk'))
            d = D(ps, fn=1)
            for n in range(npos + 3):
                for nm in mask_names_space(ps):
                    yield ('mask', n, nm, FLAGS0, d)
    return _slice(gen(), ci, nc)


def maskflags(tier, seed, ci, nc, count=40000):
    """all 16 hide_* combinations; names may be duplicated, foreign, or positional-only"""
    rng = _rng(seed, 'maskflags', ci)
    univ = U('abc', 3, (STAR_A, STAR_B))
    for _ in range(count // nc):
        ps = rng.choice(univ)
        npos = sum(1 for p in ps if p[1] in ('po', 'pk'))
        n = rng.randint(0, npos + 2)
        cand = _named(ps) + ['z'] + ([p[0] for p in ps if p[1] in ('vp', 'vk')] if rng.random() < 0.3 else [])
        r = rng.randint(0, min(3, len(cand)))
        nm = tuple(rng.choice(cand) for _ in range(r)) if rng.random() < 0.2 else tuple(rng.sample(cand, r))
        yield ('mask', n, nm, rng.choice(ALLFLAGS), D(ps, fn=1))


def maskflags_exh(tier, seed, ci, nc):
    univ = U('ab', 2)

    def gen():
        for ps in univ:
            npos = sum(1 for p in ps if p[1] in ('po', 'pk'))
            d = D(ps, fn=1)
            for n in range(npos + 3):
                for nm in mask_names_space(ps, include_po=True, include_stars=True):
                    if len(nm) > 3:
                        continue
                    for fl in ALLFLAGS:
                        yield ('mask', n, nm, fl, d)
    return _slice(gen(), ci, nc)


def maskp(tier, seed, ci, nc):
    """partial mode of _mask: U x n x keyword bindings (name->value) in every order"""
    univ = U('abc', 3) if tier != 'quick' else U('abc', 2)

    def gen():
        for ps in univ:
            npos = sum(1 for p in ps if p[1] in ('po', 'pk'))
            d = D(ps, fn=1)
            for n in range(npos + 2):
                for nm in mask_names_space(ps, include_po=True):
                    if len(nm) > 2 and tier == 'quick':
                        continue
                    kw = tuple((k, 5 + i) for i, k in enumerate(nm))
                    yield ('maskp', n, kw, 9, d)
    return _slice(gen(), ci, nc)


# ----------------------------------------------------------------------------- merge
def merge_pairs(tier, seed, ci, nc):
    univ = U('ab', 2) if tier == 'quick' else U('abc', 2)

    def gen():
        for a in univ:
            for b in univ:
                yield ('merge', [D(a, fn=1), D(b, fn=2)])
    return _slice(gen(), ci, nc)


def merge_pairs_stars(tier, seed, ci, nc):
    """pairs where the two inputs use different star names"""
    ua = U('ab', 2, (STAR_A,))
    ub = U('ab', 2, (STAR_B,))

    def gen():
        for a in ua:
            for b in ub:
                yield ('merge', [D(a, fn=1), D(b, fn=2)])
    return _slice(gen(), ci, nc)


def merge_rand(tier, seed, ci, nc, count=20000, pool='abcd', maxnamed=4):
    rng = _rng(seed, 'merge_rand', ci)
    for _ in range(count // nc):
        k = rng.choice([2, 3, 3, 3, 4])
        # a fifth of the tuples: every input derived from the SAME callable (what mask / forwards / several forwarding calls
        # of one function give): equal provenance, different parameters
        same = rng.random() < 0.2
        sigs = [D(core.rand_sig(rng, list(pool), rng.randint(0, maxnamed)), fn=1 if same else i + 1) for i in range(k)]
        yield ('merge', sigs)


def _align(rng, pool, k, maxnamed):
    """role-consistent tuple: a global assignment name -> (kind class, index) from which each input
    takes a subset, so that shared names keep kind and positional index"""
    names = rng.sample(pool, min(len(pool), maxnamed))
    npos = rng.randint(0, len(names))
    posn, kwn = names[:npos], names[npos:]
    poskind = [rng.choice(['po', 'pk']) for _ in posn]
    poskind.sort(key=lambda k: 0 if k == 'po' else 1)
    out = []
    for i in range(k):
        m = rng.randint(0, len(posn))
        ps = []
        seen_d = False
        for n_, kd in zip(posn[:m], poskind[:m]):
            d = seen_d or rng.random() < 0.3
            seen_d = d
            ps.append(P(n_, kd, 1 if d else None))
        st = rng.choice([STAR_A, STAR_B]) if rng.random() < 0.3 else STAR_A
        if rng.random() < 0.5:
            ps.append(P(st[0], 'vp'))
        for n_ in kwn:
            if rng.random() < 0.6:
                ps.append(P(n_, 'ko', 1 if rng.random() < 0.4 else None))
        if rng.random() < 0.5:
            ps.append(P(st[1], 'vk'))
        out.append(D(ps, fn=i + 1))
    return out


def merge_roles(tier, seed, ci, nc, count=20000):
    """role-consistent tuples by construction (not by rejection)"""
    rng = _rng(seed, 'merge_roles', ci)
    for _ in range(count // nc):
        yield ('merge', _align(rng, list('abcd'), rng.choice([2, 3, 3, 4]), 4))


def merge_laws(tier, seed, ci, nc):
    """merge(s), merge(s,s), neutral element on either side"""
    univ = U('abc', 2, (STAR_A, STAR_B)) if tier == 'quick' else U('abc', 3, (STAR_A, STAR_B))
    bare = (P('args', 'vp'), P('kwargs', 'vk'))

    def gen():
        for s in univ:
            yield ('merge', [D(s, fn=1)])
            yield ('merge', [D(s, fn=1), D(s, fn=1)])
            yield ('merge', [D(bare, fn=2), D(s, fn=1)])
            yield ('merge', [D(s, fn=1), D(bare, fn=2)])
            # the same laws on a fully annotated copy (eager, and postponed: PEP 563): equality in the library's sense
            # includes annotations and upgraded annotations
            for post in (False, True):
                sa = tuple(P(q[0], q[1], q[2], (2 * j + 3) if post else (2 * j + 2), ('q', 2 * j + 3, 1) if post else ('p', 2 * j + 2))
                           for j, q in enumerate(s))
                yield ('merge', [D(sa, fn=1)])
                yield ('merge', [D(sa, fn=1), D(sa, fn=1)])
                yield ('merge', [D(bare, fn=2), D(sa, fn=1)])
                yield ('merge', [D(sa, fn=1), D(bare, fn=2)])
                # ... and with a return annotation (under PEP 563 its upgraded form is not the pre-evaluated raw string)
                dr = D(sa, fn=1, ret=91 if post else 90, uret=('q', 91, 1) if post else ('p', 90))
                yield ('merge', [dr])
                yield ('merge', [dr, dr])
                yield ('merge', [dr, D(bare, fn=2)])
    return _slice(gen(), ci, nc)


# ----------------------------------------------------------------------------- embed
def _inner_universe():
    return U('abxy', 2, (STAR_A, STAR_B))


def embed_pairs(tier, seed, ci, nc, frac=None):
    outers = U('ab', 2)
    inners = _inner_universe()
    rng = _rng(seed, 'embed_pairs', 0)
    if frac is None:
        frac = 0.06 if tier == 'quick' else 1.0

    def gen():
        for o in outers:
            for i in inners:
                if frac < 1.0 and rng.random() > frac:
                    continue
                for uva in (True, False):
                    for uvk in (True, False):
                        yield ('embed', int(uva), int(uvk), [D(o, fn=1), D(i, fn=2)])
    return _slice(gen(), ci, nc)


def embed_small(tier, seed, ci, nc):
    u = U('ab', 2)

    def gen():
        for o in u:
            for i in u:
                yield ('embed', 1, 1, [D(o, fn=1), D(i, fn=2)])
    return _slice(gen(), ci, nc)


def embed_rand(tier, seed, ci, nc, count=20000):
    rng = _rng(seed, 'embed_rand', ci)
    for _ in range(count // nc):
        k = rng.choice([2, 2, 3, 3, 4])
        pools = ['abcd', 'cdxy', 'xyef', 'abef']
        sigs = [D(core.rand_sig(rng, list(pools[i % 4] if rng.random() < 0.8 else 'abcdxy'), 3, p_star=0.7), fn=i + 1)
                for i in range(k)]
        yield ('embed', int(rng.random() < 0.8), int(rng.random() < 0.8), sigs)


def _valid_names(ps):
    ns = [q[0] for q in ps]
    return len(set(ns)) == len(ns)


def homonym_rand(tier, seed, ci, nc, count=20000):
    """merge / embed on 2-4 valid signatures whose *named* parameters may be called like the star parameters of
    another input (`args`, `kwargs`, `p`, `k`): the inputs the other random streams never build"""
    rng = _rng(seed, 'homonym_rand', ci)
    pool = ['a', 'b', 'args', 'kwargs', 'p', 'k']
    n = 0
    while n < count // nc:
        k = rng.choice([2, 2, 3, 3, 4])
        sigs = []
        for i in range(k):
            while True:
                ps = core.rand_sig(rng, pool, 3, p_star=0.7)
                if _valid_names(ps):
                    break
            sigs.append(D(ps, fn=i + 1))
        n += 1
        if rng.random() < 0.5:
            yield ('embed', int(rng.random() < 0.85), int(rng.random() < 0.85), sigs)
        else:
            yield ('merge', sigs)


# ----------------------------------------------------------------------------- forwards
def forwards_rand(tier, seed, ci, nc, count=30000):
    rng = _rng(seed, 'forwards_rand', ci)
    for _ in range(count // nc):
        o = core.rand_sig(rng, list('abc'), 3, p_star=0.85)
        i = core.rand_sig(rng, list('xyzab') if rng.random() < 0.3 else list('xyzw'), 3)
        npos = sum(1 for p in i if p[1] in ('po', 'pk'))
        n = rng.choice([0, 0, 1, 1, 2, npos + 1])
        cand = _named(i) + ['zz']
        r = rng.randint(0, min(2, len(cand)))
        nm = tuple(rng.sample(cand, r))
        fl = (rng.random() < 0.15, rng.random() < 0.15, rng.random() < 0.85, rng.random() < 0.85, rng.random() < 0.2)
        yield ('forwards', n, nm, fl, D(o, fn=1), D(i, fn=2))


def forwards_exh(tier, seed, ci, nc):
    outers = [s for s in U('ab', 2) if any(p[1] in ('vp', 'vk') for p in s)]
    inners = U('xy', 2)

    def gen():
        for o in outers:
            for i in inners:
                npos = sum(1 for p in i if p[1] in ('po', 'pk'))
                for n in range(min(npos, 1) + 2):
                    for nm in mask_names_space(i, foreign='zz'):
                        if len(nm) > 1:
                            continue
                        for part in (False, True):
                            yield ('forwards', n, nm, (False, False, True, True, part), D(o, fn=1), D(i, fn=2))
    return _slice(gen(), ci, nc)


# ----------------------------------------------------------------------------- metadata (C10/C11)
DEFAULTS3 = (0, 1, 2)           # None, 1, 2
ANNS3 = (None, 2, 4)            # absent, A2, A4


def _meta_variants(rng, ps, fn, postponed=False):
    out = []
    for p in ps:
        name, kind, dflt, _, _ = p
        if dflt is not None:
            dflt = rng.choice(DEFAULTS3)
        a = rng.choice(ANNS3) if kind not in () else None
        if a is None:
            out.append(P(name, kind, dflt))
        elif postponed:
            out.append(P(name, kind, dflt, a + 1, ('q', a + 1, fn)))
        else:
            out.append(P(name, kind, dflt, a, ('p', a)))
    return tuple(out)


def meta_rand(tier, seed, ci, nc, count=30000, postponed=False):
    """merge / embed / forwards / mask over the universe extended with default and annotation values"""
    rng = _rng(seed, 'meta_rand', ci)
    for _ in range(count // nc):
        op = rng.choice(['merge', 'merge', 'embed', 'forwards', 'maskp', 'mask'])
        pp = postponed and rng.random() < 0.7
        if op == 'merge':
            k = rng.choice([2, 2, 3])
            sigs = _align(rng, list('abc'), k, 3) if rng.random() < 0.7 else \
                [D(core.rand_sig(rng, list('abc'), 3), fn=i + 1) for i in range(k)]
            sigs = [D(_meta_variants(rng, d['params'], d['fn'], pp), fn=d['fn'],
                      ret=rng.choice([None, 2]), uret='e') for d in sigs]
            for d in sigs:
                d['uret'] = 'e' if d['ret'] is None else ('p', d['ret'])
            yield ('merge', sigs)
        elif op == 'embed':
            o = _meta_variants(rng, core.rand_sig(rng, list('abc'), 2, p_star=0.9), 1, pp)
            i = _meta_variants(rng, core.rand_sig(rng, list('xyc'), 3), 2, pp)
            yield ('embed', int(rng.random() < 0.9), int(rng.random() < 0.9), [D(o, fn=1), D(i, fn=2)])
        elif op == 'forwards':
            o = _meta_variants(rng, core.rand_sig(rng, list('abc'), 2, p_star=0.9), 1, pp)
            i = _meta_variants(rng, core.rand_sig(rng, list('xyw'), 3), 2, pp)
            cand = _named(i)
            nm = tuple(rng.sample(cand, rng.randint(0, min(1, len(cand)))))
            yield ('forwards', rng.choice([0, 0, 1]), nm,
                   (False, False, True, True, rng.random() < 0.3), D(o, fn=1), D(i, fn=2))
        elif op == 'maskp':
            s = _meta_variants(rng, core.rand_sig(rng, list('abc'), 3), 1, pp)
            cand = _named(s) + ['z']
            nm = rng.sample(cand, rng.randint(0, min(2, len(cand))))
            yield ('maskp', rng.choice([0, 0, 1, 2]), tuple((k, 5 + j) for j, k in enumerate(nm)), 9, D(s, fn=1))
        else:
            s = _meta_variants(rng, core.rand_sig(rng, list('abc'), 3), 1, pp)
            cand = _named(s) + ['z']
            nm = tuple(rng.sample(cand, rng.randint(0, min(2, len(cand)))))
            yield ('mask', rng.choice([0, 0, 1, 2]), nm, rng.choice(ALLFLAGS) if rng.random() < 0.3 else FLAGS0,
                   D(s, fn=1))


def meta_post(tier, seed, ci, nc, count=30000):
    return meta_rand(tier, seed, ci, nc, count=count, postponed=True)


STREAMS = {
    'bind': bind, 'apply': apply_,
    'mask0': mask0, 'maskflags': maskflags, 'maskflags_exh': maskflags_exh, 'maskp': maskp,
    'merge_pairs': merge_pairs, 'merge_pairs_stars': merge_pairs_stars, 'merge_rand': merge_rand,
    'merge_roles': merge_roles, 'merge_laws': merge_laws,
    'embed_pairs': embed_pairs, 'embed_small': embed_small, 'embed_rand': embed_rand,
    'forwards_rand': forwards_rand, 'forwards_exh': forwards_exh,
    'meta_rand': meta_rand, 'meta_post': meta_post, 'homonym_rand': homonym_rand,
}


# ----------------------------------------------------------------------------- value-level calls (C12, C20)
def value_calls(ps, extra_pos=1, foreign=('z',), maxk=None):
    """all value-level calls: n positional tokens 100.., every subset of keyword names with values 200+id"""
    npos = sum(1 for p in ps if p[1] in ('po', 'pk'))
    pool = [p[0] for p in ps] + list(foreign)
    for n in range(npos + extra_pos + 1):
        args = tuple(100 + i for i in range(n))
        for r in range(len(pool) + 1):
            if maxk is not None and r > maxk:
                break
            for K in itertools.combinations(pool, r):
                yield args, tuple((k, 200 + core.NAMES.id(k)) for k in K)


def bindcall(tier, seed, ci, nc):
    """the value-level binding model against really calling def functions"""
    univ = U('ab', 2) if tier == 'quick' else U('abc', 3)

    def gen():
        for ps in univ:
            ps = tuple(P(p[0], p[1], (3 + i if p[2] is not None else None)) for i, p in enumerate(ps))
            for args, kw in value_calls(ps):
                yield ('bindcall', args, kw, ps)
    return _slice(gen(), ci, nc)


def callsig(tier, seed, ci, nc):
    univ = U('ab', 2) if tier == 'quick' else U('abc', 3)

    def gen():
        for ps in univ:
            ps = tuple(P(p[0], p[1], (3 + i if p[2] is not None else None)) for i, p in enumerate(ps))
            for args, kw in value_calls(ps, extra_pos=2):
                yield ('bindcallsig', args, kw, ps)
    return _slice(gen(), ci, nc)


def makeup(tier, seed, ci, nc):
    univ = U('ab', 2) if tier == 'quick' else U('abc', 3)

    def gen():
        for ps in univ:
            for nextra in (0, 1, 2):
                yield ('makeup', nextra, ps)
    return _slice(gen(), ci, nc)


def _pw_space(ps, with_bad=True):
    """every assignment name -> none / posoarg / kwoarg over the named parameters, plus inadmissible
    selections (unknown name, star parameter, both kinds at once)"""
    nmd = [p[0] for p in ps if p[1] in ('po', 'pk', 'ko')]
    for assign in itertools.product((0, 1, 2), repeat=len(nmd)):
        Pn = tuple(n for n, a in zip(nmd, assign) if a == 1)
        Wn = tuple(n for n, a in zip(nmd, assign) if a == 2)
        yield Pn, Wn
    if with_bad:
        stars = [p[0] for p in ps if p[1] in ('vp', 'vk')]
        for bad in ['zz'] + stars:
            yield (bad,), ()
            yield (), (bad,)
        if nmd:
            yield (nmd[0],), (nmd[0],)
            yield (nmd[0], 'zz'), ()


def _dist_defaults(ps):
    return tuple(P(p[0], p[1], (3 + i if p[2] is not None else None)) for i, p in enumerate(ps))


def pok(tier, seed, ci, nc, sample=None):
    """kwoargs/posoargs: advertised signature and every value-level call, function and bound method"""
    if tier == 'quick':
        univ = [s for s in U('ab', 2)]
        rng = _rng(seed, 'pok', 0)
        big = [s for s in U('abc', 3) if sum(1 for p in s if p[1] == 'pk') >= 2]
        univ = univ + rng.sample(big, 150)
    else:
        univ = U('abc', 3)

    def gen():
        for ps in univ:
            ps = _dist_defaults(ps)
            for Pn, Wn in _pw_space(ps):
                yield ('prepare', Pn, Wn, ps)
                for args, kw in value_calls(ps, maxk=3):
                    yield ('deccall', Pn, Wn, args, kw, ps)
    return _slice(gen(), ci, nc)


def pokm(tier, seed, ci, nc):
    """the same through the descriptor: bound methods"""
    univ = U('ab', 2)
    if tier != 'quick':
        rng = _rng(seed, 'pokm', 0)
        univ = univ + rng.sample(U('abc', 3), 300)

    def gen():
        for ps in univ:
            ps = _dist_defaults(ps)
            if any(p[1] == 'po' for p in ps):
                continue      # `self` is positional-or-keyword and must come first
            for Pn, Wn in _pw_space(ps, with_bad=False):
                for args, kw in value_calls(ps, maxk=2):
                    yield ('deccallm', Pn, Wn, args, kw, ps)
                    if Pn:
                        # on a method a positional-only selection is admissible only together with `self`
                        yield ('deccallm', ('self',) + Pn, Wn, args, kw, ps)
    return _slice(gen(), ci, nc)


def pokstacked(tier, seed, ci, nc):
    """a positional-only and a keyword-only selection made by two stacked decorators, in both orders, including
    selections that name one parameter for both kinds (must raise ValueError at decoration time, like the direct form)"""
    univ = U('ab', 2)

    def gen():
        for ps in univ:
            ps = _dist_defaults(ps)
            nmd = [p[0] for p in ps if p[1] in ('po', 'pk', 'ko')]
            sels = []
            for assign in itertools.product((0, 1, 2, 3), repeat=len(nmd)):     # 3: both kinds at once
                Pn = tuple(n for n, a in zip(nmd, assign) if a in (1, 3))
                Wn = tuple(n for n, a in zip(nmd, assign) if a in (2, 3))
                if Pn and Wn:
                    sels.append((Pn, Wn))
            posn = [p[0] for p in ps if p[1] in ('po', 'pk')]
            for Pn, Wn in sels:
                # "in any order in which each step is admissible": the first decorator alone must be admissible
                p_first_ok = list(Pn) == posn[:len(Pn)]
                w_first_ok = all(q[1] in ('pk', 'ko') for q in ps if q[0] in Wn)
                for args, kw in value_calls(ps, maxk=1):
                    if p_first_ok:
                        yield ('deccallst', 'pw', Pn, Wn, args, kw, ps)
                    if w_first_ok:
                        yield ('deccallst', 'wp', Pn, Wn, args, kw, ps)
    return _slice(gen(), ci, nc)


def pokmforms(tier, seed, ci, nc):
    """bound methods of the posoargs(end=) / kwoargs(start=) forms: names are recomputed for the bound function"""
    univ = U('ab', 2)

    def gen():
        for ps in univ:
            ps = _dist_defaults(ps)
            if any(p[1] == 'po' for p in ps):
                continue
            nmd = [p[0] for p in ps if p[1] == 'pk']
            for st in nmd:
                for args, kw in value_calls(ps, maxk=2):
                    yield ('deccallendm', st, (), args, kw, ps)
                    yield ('deccallstartm', st, (), args, kw, ps)
            # the selection ends at the receiver itself: posoargs(end='self') (finding D61)
            for args, kw in value_calls(ps, maxk=1):
                yield ('deccallendm', 'self', (), args, kw, ps)
            # the forms stacked with an explicit selection of the other kind, in both orders (admissible ones:
            # positional-only prefix up to st, keyword-only selection after it)
            for k_, st in enumerate(nmd):
                later = tuple(nmd[k_ + 1:])
                earlier = tuple(nmd[:k_])
                for args, kw in value_calls(ps, maxk=1):
                    if later:
                        for order in ('form-inner', 'form-outer'):
                            yield ('deccallend2m', order, st, later[:1], args, kw, ps)
                    if True:
                        for order in ('form-inner', 'form-outer'):
                            yield ('deccallstart2m', order, st, earlier, args, kw, ps)
    return _slice(gen(), ci, nc)


def poknames(tier, seed, ci, nc):
    """the start= / end= / autokwoargs(exceptions=) forms"""
    univ = U('abc', 3)

    def gen():
        for ps in univ:
            ps = _dist_defaults(ps)
            nmd = [p[0] for p in ps] + ['zz']
            for st in nmd:
                yield ('startnames', st, (), ps)
                yield ('endnames', st, (), ps)
            for st in nmd[:2]:
                for ex in nmd[:3]:
                    if ex != st:
                        yield ('startnames', st, (ex,), ps)
                        yield ('endnames', st, (ex,), ps)
            for r in range(0, 3):
                for ex in itertools.combinations(nmd, r):
                    yield ('autonames', ex, ps)
    return _slice(gen(), ci, nc)


STREAMS.update({'bindcall': bindcall, 'callsig': callsig, 'makeup': makeup, 'pok': pok, 'pokm': pokm, 'pokmforms': pokmforms, 'pokstacked': pokstacked,
                'poknames': poknames})


# ----------------------------------------------------------------------------- functools.partial (C19)
def partial_(tier, seed, ci, nc):
    """real functools.partial objects: U x (count, names) bindings; names in every order, incl. foreign
    and positional-only names and the names of *args / **kwargs themselves (finding D51)"""
    univ = U('abc', 2) if tier == 'quick' else U('abc', 3)

    def gen():
        for ps in univ:
            ps = _dist_defaults(ps)
            npos = sum(1 for p in ps if p[1] in ('po', 'pk'))
            for n in range(npos + 2):
                for nm in mask_names_space(ps, include_po=True, include_stars=True):
                    if len(nm) > (2 if tier == 'quick' else 3):
                        continue
                    yield ('partialsig', n, tuple((k, 5 + i) for i, k in enumerate(nm)), ps)
                    if nm:
                        # a falsy bound value (token 0 is None): the bound value is the default, whatever its truth value
                        yield ('partialsig', n, tuple((k, 0 if i == 0 else 5 + i) for i, k in enumerate(nm)), ps)
    return _slice(gen(), ci, nc)


STREAMS['partial'] = partial_


# ----------------------------------------------------------------------------- runtime properties
def _objs():
    out = []
    i = 0
    for d in (0, 1, 2, 3):
        for u in (1, 2):
            i += 1
            out.append(('U', i, d, u))
        i += 1
        out.append(('S', i, d))
    for d in (1, 2):
        for u in (1, 2):
            i += 1
            out.append(('u', i, d, u))
        i += 1
        out.append(('p', i, d))
    for k in range(9):
        i += 1
        out.append(('O', i))   # distinct menagerie objects
    # postponed annotations that cannot be evaluated (upgraded-annotation token >= 1000, one per object)
    for d in (0, 1):
        i += 1
        out.append(('U', i, d, 1000 + i))
    i += 1
    out.append(('u', i, 1, 1000 + i))
    return out


def eq(tier, seed, ci, nc):
    objs = _objs()
    # second objects carrying the same data under another identity
    twins = [(o[0], o[1] + 100) + tuple(o[2:]) if not (len(o) > 3 and o[3] >= 1000) else (o[0], o[1] + 100, o[2], o[3] + 100)
             for o in objs if o[0] != 'O']

    def gen():
        for a in objs:
            for b in objs + twins:
                yield ('pyeq', a, b)
                yield ('pyeq', b, a)
                yield ('pyne', a, b)
                yield ('hasheq', a, b)
    return _slice(gen(), ci, nc)


def cleanup(tier, seed, ci, nc):
    vals = (None, 7)

    def gen():
        for iw in vals:
            for is_ in (None, 8):
                for cw in (None, 17):
                    for cs in (None, 18):
                        for fault in (None, 0, 1, 2, 3):
                            yield ('cleanup', fault, iw, is_, cw, cs)
    return _slice(gen(), ci, nc)


def cache(tier, seed, ci, nc, maxlen=4, variants=('pok', 'pokpos', 'forger', 'deco', 'pok_eq', 'deco_eq', 'pokself', 'pokself_eq')):
    alphabet = ['get:0', 'get:1', 'call:0', 'call:1', 'dropw:0', 'dropw:1', 'dropi:0', 'dropi:1', 'gc']
    rng = _rng(seed, 'cache', ci)

    def gen():
        for variant in variants:
            for L in range(0, maxlen + 1):
                for ops in itertools.product(alphabet, repeat=L):
                    yield ('cache', variant, ('new:0', 'new:1') + ops)
    it = _slice(gen(), ci, nc)
    for r in it:
        yield r
    # seeded longer histories
    for _ in range((2000 if tier == 'quick' else 40000) // nc):
        L = rng.randint(maxlen + 1, maxlen + (2 if tier == 'quick' else 4))
        yield ('cache', rng.choice(variants), ('new:0', 'new:1') + tuple(rng.choice(alphabet) for _ in range(L)))


STREAMS.update({'eq': eq, 'cleanup': cleanup, 'cache': cache})


def sigcmp(tier, seed, ci, nc):
    univ = U('abc', 2) if tier == 'quick' else U('abc', 3)
    return _slice(itertools.chain([('rt:eq_symmetry',)], (('rt:sigcmp', ps) for ps in univ)), ci, nc)


STREAMS['sigcmp'] = sigcmp


def _preempt_schedules(n, steps, max_preempt):
    """line-granularity schedules with at most `max_preempt` preemptions: thread order x switch points.
    A schedule is a list of thread indices; `steps` bounds the number of traced lines of one thread."""
    out = []
    for order in itertools.permutations(range(n)):
        # no preemption: each thread runs to completion in turn
        out.append(sum(([t] * steps for t in order), []))
        if max_preempt >= 1:
            for a in range(1, steps):
                for second in range(n):
                    if second == order[0]:
                        continue
                    # first thread runs a lines, is preempted by `second` which completes, then the rest
                    rest = [t for t in order if t != second]
                    out.append([order[0]] * a + [second] * steps + sum(([t] * steps for t in rest), []))
        if max_preempt >= 2:
            for a in range(1, steps, 2):
                for b in range(1, steps, 2):
                    for second in range(n):
                        if second == order[0]:
                            continue
                        rest = [t for t in order if t != second]
                        out.append([order[0]] * a + [second] * b + sum(([t] * steps for t in rest), []) + [second] * steps)
    return out


def sched(tier, seed, ci, nc):
    """real threads running cleanup_functools_wrapper on one shared function, stepped line by line"""
    steps = 26
    def gen():
        for iw in (7, None):
            for s in _preempt_schedules(2, steps, 2):
                yield ('sched', 2, iw, tuple(s))
            if tier != 'quick':
                for s in _preempt_schedules(3, steps, 2):
                    yield ('sched', 3, iw, tuple(s))
            else:
                rng = _rng(seed, 'sched', 0)
                s3 = _preempt_schedules(3, steps, 2)
                for s in rng.sample(s3, min(300, len(s3))):
                    yield ('sched', 3, iw, tuple(s))
    return _slice(gen(), ci, nc)


STREAMS['sched'] = sched


def faults(tier, seed, ci, nc):
    from . import scenarios
    names = sorted(scenarios.make())
    excs = ('runtime', 'value', 'kbd') if tier == 'quick' else ('runtime', 'value', 'type', 'attr', 'kbd')

    def gen():
        for n in names:
            for e in excs:
                for how in ('sigtools', 'noauto', 'inspect'):
                    yield ('rt:faults', n, e, how)
    return _slice(gen(), ci, nc)


def preempt(tier, seed, ci, nc):
    """one preemption of thread A before each of its sigtools lines (quick: the first 900 lines; thorough: the first 6000, i.e. all)"""
    from . import real_rt
    stride = 1
    top = 900 if tier == 'quick' else 6000
    block = 60

    def gen():
        for name in real_rt.PREEMPT_SCENARIOS:
            for off in range(stride):
                pass
            for lo in range(1, top, block):
                yield ('rt:preempt', name, lo, lo + block, stride)
    return _slice(gen(), ci, nc)


def lateattr(tier, seed, ci, nc):
    def gen():
        for v in ('as_forged', 'emulate', 'plain'):
            yield ('rt:lateattr', v)
        yield ('rt:truth_history',)
        yield ('rt:receiver_modifiers',)
    return _slice(gen(), ci, nc)


def redecorate(tier, seed, ci, nc):
    alphabet = ('sig', 'bind1', 'bind2', 'call', 'sigb')
    L = 2 if tier == 'quick' else 3

    def gen():
        for sc in ('pos_self_a', 'pos_self', 'kwo_b', 'kwo_over_end', 'auto'):
            for redeco in ('none', 'annotate', 'annotate_ret', 'kwoargs'):
                if redeco == 'kwoargs' and sc in ('kwo_b', 'auto'):
                    continue      # b is keyword-only already: not an admissible step
                for n in range(L + 1):
                    for h in itertools.product(alphabet, repeat=n):
                        yield ('rt:redecorate', sc, h, redeco)
    return _slice(gen(), ci, nc)


STREAMS.update({'preempt': preempt, 'lateattr': lateattr, 'redecorate': redecorate})


def threads_rt(tier, seed, ci, nc):
    def gen():
        yield ('rt:asforged_threads', 'inspect')
        yield ('rt:asforged_threads', 'sigtools')
        yield ('rt:window',)
        yield ('rt:window_resolution',)
        for k in range(2 if tier == 'quick' else 12):
            yield ('rt:stress', seed * 100 + k, 300 if tier == 'quick' else 1500, 4 if tier == 'quick' else 6)
    return _slice(gen(), ci, nc)


STREAMS.update({'faults': faults, 'threads_rt': threads_rt})


def modorder(tier, seed, ci, nc):
    univ = [s for s in (U('abc', 3)) if sum(1 for p in s if p[1] == 'pk') >= 2]
    rng = _rng(seed, 'modorder', 0)
    if tier == 'quick':
        univ = rng.sample(univ, 120)

    def gen():
        for ps in univ:
            ps = _dist_defaults(ps)
            pk = [p[0] for p in ps if p[1] == 'pk']
            for npo in range(0, len(pk)):
                Pn = tuple(pk[:npo])
                rest = pk[npo:]
                for r in range(0, min(2, len(rest)) + 1):
                    for Wn in itertools.combinations(rest, r):
                        for ann in (None, pk[0]):
                            if not (Pn or Wn):
                                continue
                            yield ('rt:modorder', ps, Pn, Wn, ann)
    return _slice(gen(), ci, nc)


STREAMS['modorder'] = modorder


def alias(tier, seed, ci, nc, count=6000):
    gens = [merge_rand(tier, seed, ci, nc, count=count // 3), embed_rand(tier, seed, ci, nc, count=count // 3),
            forwards_rand(tier, seed, ci, nc, count=count // 6), maskflags(tier, seed, ci, nc, count=count // 6)]
    for g in gens:
        for r in g:
            yield ('rt:alias', r)
            # the one-signature forms: nothing is combined, yet the result is a new signature with maps of its own
            if r[0] == 'merge' and len(r[1]) >= 1 and hash(str(r)) % 5 == 0:
                yield ('rt:alias', ('merge', tuple(r[1][:1])))
            if r[0] == 'embed' and len(r[3]) >= 1 and hash(str(r)) % 5 == 0:
                yield ('rt:alias', ('embed', r[1], r[2], tuple(r[3][:1])))


STREAMS['alias'] = alias


def probes_c16(tier, seed, ci, nc):
    yield ('rt:handbuilt_nomut',)


STREAMS['probes_c16'] = probes_c16


# ----------------------------------------------------------------------------- discovery
def _corpus_prefork():
    from . import corpus
    corpus.callables()


def visitor_corpus(tier, seed, ci, nc, star_only=False, limit=None):
    """the real CallListerVisitor vs the Lean visitor on the AST of every corpus function whose source parses to a def"""
    import ast as _ast
    from . import corpus, real_disc
    funcs = corpus.callables()[0]
    idxs = range(len(funcs))
    if star_only:
        idxs = [i for i in idxs if funcs[i].__code__.co_flags & 0x0c]
    if limit:
        rng = _rng(seed, 'visitor_corpus', 0)
        idxs = sorted(rng.sample(list(idxs), min(limit, len(idxs))))
    for k, i in enumerate(idxs):
        if k % nc != ci:
            continue
        t = real_disc.corpus_ast(i)
        if isinstance(t, (_ast.FunctionDef, _ast.AsyncFunctionDef)):
            yield ('visit', 'corpus', i)


ADVERSARIAL_SOURCES = [
    # the taint sits in the forwarding call's own argument list: explicit arguments are resolved before the stars
    "def f(*args, **kwargs):\n    return g(h(kwargs), *args, **kwargs)\n",
    "def f(*args, **kwargs):\n    return g(*args, z=h(kwargs), **kwargs)\n",
    "def f(*args, **kwargs):\n    return g(*args, z=kwargs.pop('w', None), **kwargs)\n",
    "def f(*args, **kwargs):\n    return g(kwargs.setdefault('a', 1), h(args), *args, **kwargs)\n",
    "def f(*args, **kwargs):\n    return g(*args, **kwargs)(h(kwargs))\n",
    "def f(*args, **kwargs):\n    return g(lambda: h(kwargs), *args, **kwargs)\n",
    # nesting through functions / lambdas that bind no name of their own (their namespace is empty)
    "def f(*args, **kwargs):\n    def l1():\n        def l2():\n            return g(*args, **kwargs)\n        return l2()\n    return l1()\n",
    "def f(*args, **kwargs):\n    return (lambda: (lambda: g(*args, **kwargs))())()\n",
    "def f(*args, **kwargs):\n    def l1():\n        return (lambda: g(*args, **kwargs))()\n    return l1()\n",
    "def f(*args, **kwargs):\n    def l1(q):\n        def l2():\n            return g(*args, **kwargs)\n        return l2()\n    return l1(1)\n",
    "def f(*args, **kwargs):\n    def l1():\n        def l2():\n            def l3():\n                return g(1, *args, k=2, **kwargs)\n            return l3()\n        return l2()\n    return l1()\n",
    "def f(a, *args, **kwargs):\n    def l1():\n        def l2():\n            nonlocal kwargs\n            kwargs = {}\n        l2()\n    l1()\n    return g(*args, **kwargs)\n",
    "def f(*args, **kwargs):\n    return g(*args, **kwargs)\n",
    "def f(*args, **kwargs):\n    kwargs.pop('x')\n    return g(*args, **kwargs)\n",
    "def f(*args, **kwargs):\n    kwargs = {}\n    return g(*args, **kwargs)\n",
    "def f(*args, **kwargs):\n    del kwargs\n    return g(*args)\n",
    "def f(*args, **kwargs):\n    print(kwargs)\n    return g(*args, **kwargs)\n",
    "def f(*args, **kwargs):\n    def sub():\n        nonlocal kwargs\n        kwargs = 1\n    return g(*args, **kwargs)\n",
    "def f(*args, **kwargs):\n    def sub():\n        return g(*args, **kwargs)\n    return sub()\n",
    "def f(*args, **kwargs):\n    return (lambda: g(*args, **kwargs))()\n",
    "def f(*args, **kwargs):\n    return g(*args, *args, **kwargs)\n",
    "def f(*args, **kwargs):\n    return g(*args, **kwargs, **kwargs)\n",
    "def f(*args, **kwargs):\n    return g(*args[1:], **dict(kwargs))\n",
    "def f(self, *args, **kwargs):\n    return self.a.b.c(1, *args, k=2, **kwargs)\n",
    "def f(self, *args, **kwargs):\n    self.x(3)\n    return self.m(*args, **kwargs)\n",
    "def f(*args, **kwargs):\n    return g(h(*args), **kwargs)\n",
    "def f(*args, **kwargs):\n    return g()(*args, **kwargs)\n",
    "def f(*args, **kwargs):\n    for i in range(3):\n        g(*args, **kwargs)\n        kwargs = i\n",
    "def f(*args, **kwargs):\n    with open(x) as kwargs:\n        pass\n    return g(*args, **kwargs)\n",
    "def f(*args, **kwargs):\n    if (kwargs := 1):\n        pass\n    return g(*args, **kwargs)\n",
    "def f(*args, **kwargs):\n    [g(*args, **kwargs) for kwargs in range(3)]\n",
    "def f(*args, **kwargs):\n    match args:\n        case [kwargs]:\n            pass\n    return g(*args, **kwargs)\n",
    "def f(*args, **kwargs):\n    global kwargs2\n    try:\n        return g(*args, **kwargs)\n    except E as kwargs:\n        pass\n",
    "async def f(*args, **kwargs):\n    return await g(*args, **kwargs)\n",
    "def f(*args, **kwargs):\n    async def sub(*args):\n        return g(*args, **kwargs)\n    yield from g(*args, **kwargs)\n",
    "def f(*args, **kwargs):\n    class K:\n        x = g(*args, **kwargs)\n    return K\n",
    "def f(a, /, b, *args, c, **kwargs):\n    return a(b, *args, c=c, **kwargs)\n",
    "def f(*args, **kwargs):\n    def sub(*args, **kwargs):\n        return g(*args, **kwargs)\n    return sub(*args, **kwargs)\n",
    "def f(*args, **kwargs):\n    args.count(1)\n    return g(*args, **kwargs)\n",
    "def f(*args, **kwargs):\n    x = args\n    y = kwargs\n    return g(*args, **kwargs)\n",
    "def f(*args, **kwargs):\n    return functools.partial(g, 1, *args, **kwargs)\n",
    "def f(*args, **kwargs):\n    def sub():\n        nonlocal zz\n    def sub2():\n        def sub3():\n            nonlocal args\n            return g(*args)\n    return g(*args, **kwargs)\n",
    "def f(*args, **kwargs):\n    return g(*args, **kwargs) if kwargs else g(*args)\n",
    "def f(*args, **kwargs):\n    lambda kwargs: kwargs\n    return g(*args, **kwargs)\n",
    "@deco(g(1))\ndef f(*args, x=g(2), **kwargs) -> g(3):\n    return g(*args, **kwargs)\n",
]


def visitor_adv(tier, seed, ci, nc):
    return _slice((('visit', 'src', s) for s in ADVERSARIAL_SOURCES), ci, nc)


PREFORK = {'visitor_corpus': _corpus_prefork}
STREAMS.update({'visitor_corpus': visitor_corpus, 'visitor_adv': visitor_adv})


def programs(tier, seed, ci, nc, count=3000, ops=('render', 'pvisit', 'ptruth', 'pauto'), routes=None):
    """random programs of the forwarding grammar; each yields one request per op"""
    from . import progs
    rng = _rng(seed, 'programs', ci)
    for _ in range(count // nc):
        p = progs.rand_prog(rng)
        if routes and p['route'] not in routes:
            continue
        for op in ops:
            yield (op, p)


STREAMS['programs'] = programs


def programs_hint(tier, seed, ci, nc, count=3000):
    """programs whose wrapper is decorated with modifiers.posoargs / kwoargs: the hint route of discovery"""
    from . import progs
    rng = _rng(seed, 'programs_hint', ci)
    for _ in range(count // nc):
        p = progs.rand_prog(rng)
        if p['route'] in ('self', 'param') or not p['params']:
            continue
        ps = list(p['params'])
        k = rng.randint(0, len(ps))
        P = tuple(ps[:k]) if rng.random() < 0.7 else tuple(rng.sample(ps, rng.randint(0, len(ps))))
        rest = [x for x in ps if x not in P] if rng.random() < 0.85 else ps
        W = tuple(rng.sample(rest, rng.randint(0, len(rest))))
        if rng.random() < 0.05:
            W = W + ('zz',)          # a name the function does not have
        if not P and not W:
            continue
        p = dict(p, hintP=P, hintW=W)
        yield ('pautoh', p)


STREAMS['programs_hint'] = programs_hint


def progexec(tier, seed, ci, nc, count=2000, ops=('progexec', 'declared', 'variants')):
    from . import progs
    rng = _rng(seed, 'progexec', ci)
    for i in range(count // nc):
        p = progs.rand_prog(rng)
        vseed = rng.randint(0, 10 ** 9)
        if 'progexec' in ops:
            yield ('rt:progexec', p)
        if 'declared' in ops:
            yield ('rt:declared', p)
        if 'variants' in ops and i % 2 == 0:
            yield ('rt:variants', p, vseed)


STREAMS['progexec'] = progexec


def probes_c05(tier, seed, ci, nc):
    return _slice(iter([('rt:nested_taint',), ('rt:source_changed',), ('rt:dflt_callee',)]), ci, nc)


STREAMS['probes_c05'] = probes_c05


def probes_c06(tier, seed, ci, nc):
    yield ('rt:probes_c06',)
    yield ('rt:dflt_callee',)
    yield ('rt:source_changed',)     # discovery = the declaration for the call shape written NOW (same file name and line, new text)
    yield ('rt:column_zero',)        # text left of an indented def (string content, comments) is irrelevant


STREAMS['probes_c06'] = probes_c06


def probes_c08(tier, seed, ci, nc):
    yield ('rt:modprov',)


STREAMS['probes_c08'] = probes_c08


def modsig(tier, seed, ci, nc):
    """the signature a modifiers wrapper object advertises, provenance included (model: prepareSig = the advertised
    parameters + the function's maps with the wrapper object swapped in), over U x every positional-only / keyword-only selection"""
    univ = U('ab', 2) if tier == 'quick' else U('abc', 3)

    def gen():
        for ps in univ:
            ps = _dist_defaults(ps)
            for Pn, Wn in _pw_space(ps):
                if Pn or Wn:
                    yield ('preparesig', Pn, Wn, ps)
                posn = [p[0] for p in ps if p[1] in ('po', 'pk')]
                if Pn and Wn and list(Pn) == posn[:len(Pn)]:
                    # the same selection made by two stacked decorators (theorem prepare_set_ext: one wrapper object with both
                    # selections): the OUTER wrapper object stands for the function in both maps
                    yield ('preparesig', Pn, Wn, ps, 'stacked')
    return _slice(gen(), ci, nc)


STREAMS['modsig'] = modsig


def retrbound(tier, seed, ci, nc, count=3000):
    """signatures.signature of a bound method whose function carries a stored signature with provenance: the signatures of
    the universe with a receiver in front, with default provenance and with the provenance of earlier operations (prov_rand's
    generator), model: retrieveBound = receiver dropped + its entries pruned"""
    rng = _rng(seed, 'retrbound', ci)
    univ = U('ab', 2)

    def gen():
        for ps in univ:
            if ps and ps[0][1] == 'po':
                continue
            full = (P('self', 'pk'),) + tuple(ps)
            if any(p[1] == 'po' for p in ps):
                continue
            yield ('retrievebound', D(full, fn=1))
            # provenance as left by earlier operations: several callables, several depths, per-parameter lists
            names_ = [p[0] for p in full]
            for _ in range(2):
                k = rng.choice([2, 3])
                src = {n: sorted(rng.sample(range(1, k + 1), rng.randint(1, k))) for n in names_}
                depths = {i: rng.randint(0, 2) for i in range(1, k + 1)}
                yield ('retrievebound', D(full, fn=1, src=src, depths=depths))
    return _slice(gen(), ci, nc)


STREAMS['retrbound'] = retrbound


def retrieve(tier, seed, ci, nc, n_other=3000, n_plain=2000, n_sphinx=1500):
    """C07 over the corpus: all star-taking functions + a seeded sample of the other callables"""
    from . import corpus
    funcs, others = corpus.callables()
    rng = _rng(seed, 'retrieve', 0)
    star = [i for i, f in enumerate(funcs) if f.__code__.co_flags & 0x0c]
    nostar = [i for i, f in enumerate(funcs) if not f.__code__.co_flags & 0x0c]
    if tier == 'quick':
        nostar = sorted(rng.sample(nostar, min(n_plain, len(nostar))))
        oth = sorted(rng.sample(range(len(others)), min(n_other, len(others))))
        sph = sorted(rng.sample(range(len(funcs)), min(n_sphinx, len(funcs))))
    else:
        oth = range(len(others))
        sph = range(len(funcs))

    def gen():
        yield ('rt:adversarial',)
        for i in star:
            yield ('rt:retrieve', 'f', i)
        for i in nostar:
            yield ('rt:retrieve', 'f', i)
        for i in oth:
            yield ('rt:retrieve', 'o', i)
        for i in sph:
            yield ('rt:sphinx', i)
        for i in list(oth)[::3]:
            yield ('rt:sphinx', i, 'o')       # classes and other named callables
    return _slice(gen(), ci, nc)


PREFORK['retrieve'] = _corpus_prefork
STREAMS['retrieve'] = retrieve


def wrap(tier, seed, ci, nc, count=600):
    rng = _rng(seed, 'wrap', ci)
    funcs = [s for s in U('abc', 2) if not any(p[1] in ('vp', 'vk') for p in s)] + \
            [s for s in U('ab', 2)]
    owns = [(), ('d',), ('d', 'e'), ('q',), ('q', 'd')]
    for _ in range(count // nc):
        kind = rng.choice(['decorator', 'decorator', 'wrapper_decorator'])
        depth = rng.choice([1, 1, 2, 3])
        own_list = []
        used = set()
        for i in range(depth):
            own = tuple('%s%d' % (n, i) for n in rng.choice(owns))
            own_list.append(own)
        fps = rng.choice(funcs)
        placement = rng.choice(['function', 'function_peek', 'function_forged', 'function_wraps', 'method', 'method_falsy', 'staticmethod'])
        if any(p[1] == 'po' for p in fps) and placement in ('method', 'method_falsy'):
            placement = 'function'
        yield ('rt:wrap', kind, tuple(own_list), fps, placement)
    if ci == 0:
        yield ('rt:wrap_identity',)
        yield ('rt:wrap_faults',)
    for _ in range(count // nc // 2):
        k = rng.choice([1, 2, 2, 3])
        fl = tuple(rng.choice([s for s in U('ab', 2)]) for _ in range(k))
        first = rng.choice(['arg', 'arg', 'value'])
        fwd = tuple(i for i in range(k) if rng.random() < 0.35)
        yield ('rt:combination', fl, (first,) * k, fwd)


STREAMS['wrap'] = wrap


def wlist(tier, seed, ci, nc):
    """every stack of depth <= 5 (quick) / 6 over {sigtools level with wrapper 1, 2 or 3, functools.wraps level}"""
    alphabet = (1, 2, 3, 'W')
    top = 5 if tier == 'quick' else 6

    def gen():
        for n in range(top + 1):
            for ls in itertools.product(alphabet, repeat=n):
                yield ('wlist', ls)
    return _slice(gen(), ci, nc)


STREAMS['wlist'] = wlist


def annot(tier, seed, ci, nc, count=4000):
    rng = _rng(seed, 'annot', ci)
    for _ in range(count // nc):
        yield ('rt:annot', rng.randint(0, 10 ** 9))


STREAMS['annot'] = annot


def probes_c11(tier, seed, ci, nc):
    yield ('rt:class_annotations',)
    yield ('rt:annotate_discovery',)
    yield ('rt:none_annotation',)
    yield ('rt:wrapped_annotations',)
    yield ('rt:wraps_crossmodule',)
    yield ('rt:annotate_bound',)


STREAMS['probes_c11'] = probes_c11


# ----------------------------------------------------------------------------- declared forwarding, really executed (C04)
def declfwd(tier, seed, ci, nc, count=600):
    """wrapper/inner pairs from the universe declared with forwards_to_function / _method / _super /
    apply_forwards_to_super, on ordinary and falsy receivers"""
    from . import real_decl
    rng = _rng(seed, 'declfwd', ci)
    outers = [s for s in U('ab', 2) if any(p[1] == 'vp' for p in s) or any(p[1] == 'vk' for p in s)]
    inners = U('xy', 2)
    for k in range(count // nc):
        o = rng.choice(outers)
        i = rng.choice(inners)
        form = real_decl.FORMS[k % len(real_decl.FORMS)]
        recv = rng.choice(real_decl.RECEIVERS) if form != 'function' else 'plain'
        npos = sum(1 for p in i if p[1] in ('po', 'pk'))
        n = rng.choice([0, 0, 0, 1, min(npos, 2)])
        kwp = [p[0] for p in i if p[1] in ('pk', 'ko')]
        nm = tuple(rng.sample(kwp, rng.randint(0, min(1, len(kwp))))) if rng.random() < 0.4 else ()
        part = rng.random() < 0.1
        fl = (True, True, False, False, part)
        yield ('rt:declfwd', form, o, i, n, nm, fl, recv)


STREAMS['declfwd'] = declfwd


def probes_c04(tier, seed, ci, nc):
    yield ('rt:stacked_decl',)
    yield ('rt:emulate_threads', 'inspect')
    yield ('rt:emulate_threads', 'sigtools')


STREAMS['probes_c04'] = probes_c04


# ----------------------------------------------------------------------------- inputs that already carry provenance (C08)
def prov_rand(tier, seed, ci, nc, count=20000):
    """merge / embed / forwards / mask on inputs whose provenance is not the default one: several callables per
    parameter and depth maps in which one callable sits at different depths in different inputs (what results of
    earlier operations look like: a callable reached twice along chains of different length)"""
    rng = _rng(seed, 'prov_rand', ci)

    def sig(i):
        ps = core.rand_sig(rng, list('abxy'), 3, p_star=0.7)
        fns = rng.sample([1, 2, 3, 4, 5], rng.randint(1, 3))
        src = {p[0]: rng.sample(fns, rng.randint(1, len(fns))) for p in ps}
        depths = {f: rng.randint(0, 3) for f in fns}
        return D(ps, fn=fns[0], src=src, depths=depths)
    for _ in range(count // nc):
        r = rng.random()
        if r < 0.4:
            yield ('merge', [sig(i) for i in range(rng.choice([2, 2, 3]))])
        elif r < 0.8:
            yield ('embed', int(rng.random() < 0.85), int(rng.random() < 0.85), [sig(i) for i in range(rng.choice([2, 2, 3]))])
        elif r < 0.9:
            i = sig(0)
            nm = tuple(rng.sample(_named(i['params']) + ['zz'], rng.randint(0, 1)))
            yield ('forwards', rng.choice([0, 0, 1]), nm, (False, False, True, True, rng.random() < 0.2), sig(1), i)
        else:
            d = sig(0)
            yield ('mask', rng.choice([0, 1, 2]), (), (False, False, False, False), d)


STREAMS['prov_rand'] = prov_rand


def probes_c15(tier, seed, ci, nc):
    return _slice(iter([('rt:fallback',)]), ci, nc)


STREAMS['probes_c15'] = probes_c15


def partialfwd(tier, seed, ci, nc, count=400):
    """functools.partial over wrappers forwarding to one of their own parameters (C19, discovery branch)"""
    rng = _rng(seed, 'partialfwd', ci)
    univ = [s for s in U('xy', 2) if not any(p[0] in ('a', 'cb', 'target', 'args', 'kwargs') and p[1] not in ('vp', 'vk') for p in s)]
    for k in range(count // nc):
        tmpl = ('posparam', 'kwdefault', 'kwbound', 'globnone', 'globkw', 'globpos', 'kwleading', 'nestedpartial', 'hintkwo', 'hintposo', 'nestedkw', 'falsylen', 'falsybool')[k % 13]
        yield ('rt:partialfwd', tmpl, rng.choice(univ), rng.choice(univ), rng.choice([0, 0, 1]))


STREAMS['partialfwd'] = partialfwd


def probes(tier, seed, ci, nc, items=()):
    """named runtime probes (harness/real_r7.py and friends), one request each"""
    return _slice(iter([('rt:' + it,) for it in items]), ci, nc)


STREAMS['probes'] = probes


def chain(tier, seed, ci, nc):
    """the fallback chain of forged_signature: every combination of what the declared forger, the autoforwards hint,
    autoforwards and plain retrieval do (absent / no opinion / a signature / UnknownForwards / another exception), with and
    without automatic discovery; an exception in the hint slot is raised by the hint callable or by autoforwards_ast"""
    slots = ['N', 'U', 'S1', 'EvalueError', 'EtypeError', 'EunknownForwards', 'EkeyError']

    def gen():
        for auto in (0, 1):
            for f in ['-'] + slots:
                for h in ['-'] + slots:
                    for a in slots[1:]:
                        for p in ('S3', 'EvalueError', 'EunknownForwards', 'EtypeError'):
                            yield ('chain', auto, f, h, a, p, 'callable')
                            if h[0] == 'E':
                                yield ('chain', auto, f, h, a, p, 'ast')
    return _slice(gen(), ci, nc)


STREAMS['chain'] = chain


def cacheid(tier, seed, ci, nc, count=600):
    """histories of lookups of a modifiers-decorated method through up to four instances, two of which may compare equal
    (Model/CacheId.lean): short ones exhaustively, longer ones at random"""
    rng = _rng(seed, 'cacheid', ci)

    def rand_ops(n):
        ops, cls = [], {}
        for _ in range(n):
            k = rng.choice(['new', 'new', 'get', 'get', 'get', 'call', 'call', 'dropw', 'dropi', 'gc', 'cls'])
            i = rng.randint(1, 4)
            if k == 'new':
                ops.append('new:%d:%d' % (i, cls.setdefault(i, rng.randint(7, 8))))
            elif k in ('gc', 'cls'):
                ops.append(k)
            else:
                ops.append('%s:%d' % (k, i))
            if k in ('dropw', 'call', 'dropi'):
                ops.append('gc')          # CPython frees at once; wrappers may sit in cycles
        return tuple(ops)

    def gen():
        base = ('new:1:7', 'new:2:7')
        alpha = ('get:1', 'get:2', 'call:1', 'call:2', 'dropw:1', 'dropi:1', 'cls')
        import itertools
        for L in (1, 2, 3):
            for h in itertools.product(alpha, repeat=L):
                ops = list(base)
                for o in h:
                    ops.append(o)
                    if o.split(':')[0] in ('dropw', 'call', 'dropi'):
                        ops.append('gc')
                yield ('cacheid', ('kwoargs', 'posoargs', 'autokwoargs')[len(ops) % 3], tuple(ops))
        for k in range(count):
            yield ('cacheid', ('kwoargs', 'posoargs', 'autokwoargs')[k % 3], rand_ops(rng.randint(1, 25)))
    return _slice(gen(), ci, nc)


STREAMS['cacheid'] = cacheid


def readsig(tier, seed, ci, nc, count=4000):
    """the string layer of support (Model/ReadSig.lean): for every signature of the universe, its native text — read_sig and
    s() in all eight option combinations — and `pieces` against str(inspect.Signature); then texts nobody would write:
    random piece lists (chevrons, several slashes and stars, duplicates, defaults anywhere)"""
    rng = _rng(seed, 'readsig', ci)
    univ = U('ab', 2) if tier == 'quick' else U('abc', 3)

    def native(ps):
        out, prev = [], None
        for (n, k, d, a) in ps:
            if prev == 'po' and k != 'po':
                out.append(('S',))
            if k == 'ko' and prev not in ('vp', 'ko'):
                out.append(('B',))
            out.append(({'vp': 's1', 'vk': 's2'}.get(k, 'p'), n, a, d))
            prev = k
        if prev == 'po':
            out.append(('S',))
        return tuple(out)

    def chevrons(ps):
        return tuple(('c', n, a, d) if k == 'po' else ({'vp': 's1', 'vk': 's2'}.get(k, 'p'), n, a, d) for (n, k, d, a) in ps)

    def gen():
        for j, ps0 in enumerate(univ):
            for variant in range(3):
                # defaults: distinct tokens (0 = None among them); annotations: none / alternate / all
                ps = tuple((p[0], p[1], None if p[2] is None else ((3 + i) if (i + j) % 4 else 0),
                            None if variant == 0 else (40 + i if (variant == 2 or i % 2 == 0) else None))
                           for i, p in enumerate(ps0))
                if variant == 0 or j % 3 == 0:
                    yield ('pieces', tuple(core.P(n, k, d, a) for (n, k, d, a) in ps))
                texts = [native(ps)]
                if any(p[1] == 'po' for p in ps):
                    texts.append(chevrons(ps))
                for pcs in texts:
                    for ua, upo, ukw in itertools.product((0, 1), repeat=3):
                        yield ('readsig', ua, upo, ukw, pcs)
                        yield ('stext', ua, upo, ukw, pcs)
        names = ['a', 'b', 'c', 'd', 'args', 'kwargs']
        for _ in range(count):
            n = rng.randint(0, 6)
            pcs = []
            for _i in range(n):
                r = rng.random()
                if r < 0.10:
                    pcs.append(('S',))
                elif r < 0.20:
                    pcs.append(('B',))
                else:
                    tag = rng.choice(['p', 'p', 'p', 'p', 'c', 's1', 's2'])
                    nm = rng.choice(names[:4] if tag in ('p', 'c') or rng.random() < 0.2 else names[4:])
                    a = rng.choice([None, None, 40, 41])
                    d = rng.choice([None, None, 0, 3, 4]) if tag in ('p', 'c') or rng.random() < 0.05 else None
                    pcs.append((tag, nm, a, d))
            ua, upo, ukw = rng.randint(0, 1), rng.randint(0, 1), rng.randint(0, 1)
            yield ('readsig', ua, upo, ukw, tuple(pcs))
            yield ('stext', ua, upo, ukw, tuple(pcs))
    return _slice(gen(), ci, nc)


STREAMS['readsig'] = readsig


def resplit(tier, seed, ci, nc, count=20000):
    """`sig_str.split(',')` and `re_paramname.match(part).groups()` against Model/ReadSigText.lean: every text over the alphabet
    {a, b, space, ':', '=', '*', ','} up to length 5 (quick) / 6 (thorough), then longer random ones, then the texts of the
    signatures of the universe in several spacings"""
    rng = _rng(seed, 'resplit', ci)
    alpha = 'ab :=*,'
    maxlen = 5 if tier == 'quick' else 6

    def gen():
        for L in range(0, maxlen + 1):
            for t in itertools.product(alpha, repeat=L):
                yield ('resplit', ''.join(t))
        big = alpha + '<>/c\t40'
        for _ in range(count):
            yield ('resplit', ''.join(rng.choice(big) for _ in range(rng.randint(6, 24))))
        from . import real_r8
        for j, ps0 in enumerate(U('abc', 3)):
            if j % 7:
                continue
            pcs = []
            prev = None
            for i, (n, k, d) in enumerate(p[:3] for p in ps0):
                if k == 'ko' and prev not in ('vp', 'ko'):
                    pcs.append(('B',))
                pcs.append(({'vp': 's1', 'vk': 's2'}.get(k, 'p'), n, 40 + i if (i + j) % 2 else None, None if d is None else 3 + i))
                prev = k
            for sep in (', ', ',', ' ,  '):
                yield ('resplit', real_r8.text_of(pcs, sep))
    return _slice(gen(), ci, nc)


STREAMS['resplit'] = resplit


def readsigtext(tier, seed, ci, nc, count=6000):
    """the whole of support.read_sig, from the TEXT, against Model/ReadSigText.readSigText (split, regular expression, from the
    groups to pieces, the loop): the texts of the universe in three spacings x 8 option combinations, then random texts over
    an alphabet with stars, chevrons, slashes, colons and equal signs"""
    rng = _rng(seed, 'readsigtext', ci)
    from . import real_r8

    def gen():
        for j, ps0 in enumerate(U('ab', 2) if tier == 'quick' else U('abc', 3)):
            pcs, prev = [], None
            for i, (n, k, d) in enumerate(p[:3] for p in ps0):
                if prev == 'po' and k != 'po':
                    pcs.append(('S',))
                if k == 'ko' and prev not in ('vp', 'ko'):
                    pcs.append(('B',))
                pcs.append(({'vp': 's1', 'vk': 's2'}.get(k, 'p'), n, 40 + i if (i + j) % 2 else None, None if d is None else 3 + i))
                prev = k
            if prev == 'po':
                pcs.append(('S',))
            for sep in (', ', ',', ',   '):
                text = real_r8.text_of(pcs, sep)
                for ua, upo, ukw in itertools.product((0, 1), repeat=3):
                    yield ('readsigtext', ua, upo, ukw, text)
        alpha = ['a', 'b', 'args', 'kw', '*', '**', '<', '>', '/', ':', '=', ',', ', ', ' ', '40', '3']
        for _ in range(count):
            text = ''.join(rng.choice(alpha) for _ in range(rng.randint(0, 9)))
            yield ('readsigtext', rng.randint(0, 1), rng.randint(0, 1), rng.randint(0, 1), text)
    return _slice(gen(), ci, nc)


STREAMS['readsigtext'] = readsigtext


def examine(tier, seed, ci, nc, count=1500):
    """call graphs in which every function forwards to one callee (or to a terminal function), plain and modifiers-decorated:
    the guard events of the real `_examine_once` vs Model/Examine.examineTrace — every graph of up to 3 functions, then
    random ones of 4 to 7"""
    rng = _rng(seed, 'examine', ci)

    def gen():
        for n in (1, 2, 3):
            for succ in itertools.product(range(n + 1), repeat=n):
                for hinted in itertools.product((False, True), repeat=n):
                    for f in range(n):
                        yield ('examine', n, f, succ, hinted)
        for _ in range(count if tier == 'thorough' else count // 5):
            n = rng.randint(4, 7)
            succ = tuple(rng.randint(0, n) for _ in range(n))
            hinted = tuple(rng.random() < 0.4 for _ in range(n))
            yield ('examine', n, rng.randrange(n), succ, hinted)
    return _slice(gen(), ci, nc)


STREAMS['examine'] = examine
