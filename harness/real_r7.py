"""harness/real_r7.py — runtime probes added in round 7 (each returns ('ok', problems, tag); a problem's text starts with a
stable key followed by ':').  They run the REAL code only: what they check lies outside the token model (default objects
with unusual `==`, warnings turned into errors, receiver names, ...) and is stated from the property text.
"""
import inspect, warnings, functools
from . import core
from .core import sigtools, signatures

RT = {}


# ----------------------------------------------------------------------------- defaults with an unusual ==
class _Any(object):
    """a default that compares equal to everything (unittest.mock.ANY, wildcard markers)"""
    def __eq__(self, other): return True
    def __ne__(self, other): return False
    __hash__ = object.__hash__
    def __repr__(self): return '<ANY>'


class _Never(object):
    """a default that compares equal to nothing, itself included (float('nan'))"""
    def __eq__(self, other): return False
    def __ne__(self, other): return True
    __hash__ = object.__hash__
    def __repr__(self): return '<NEVER>'


class _ArrayLike(object):
    """a default whose == returns an object without a truth value (numpy arrays)"""
    class _R(object):
        def __bool__(self): raise ValueError('The truth value of an array is ambiguous')

    def __eq__(self, other): return self._R()
    def __ne__(self, other): return self._R()
    __hash__ = object.__hash__
    def __repr__(self): return '<ARRAY>'


def _accepts(sig, a, k):
    try:
        sig.bind(*a, **k)
        return True
    except TypeError:
        return False


def _runs(f, a, k):
    try:
        f(*a, **k)
        return True
    except TypeError:
        return False


def rt_eq_defaults(req):
    """the algebra decides "has a default" by identity with the `empty` sentinel, as inspect does: a default object whose `==`
    answers True for everything / False for everything / something without a truth value is still a default"""
    problems = []
    shapes = [((), {}), ((0,), {}), ((0, 0), {}), ((), {'a': 0}), ((0,), {'a': 0}), ((), {'x': 0}), ((0,), {'x': 0})]
    for label, dv in (('equal-to-everything', _Any()), ('equal-to-nothing', _Never()), ('array-like', _ArrayLike())):
        def opt(a=dv): return None
        def req_(a): return None
        def none(): return None
        def kwopt(*, a=dv): return None
        def kwreq(*, a): return None
        def outer(q, *args, **kwargs): return None
        def inner_opt(x=dv): return None
        def bare(*args, **kwargs): return None
        with warnings.catch_warnings():
            warnings.simplefilter('ignore')
            S = signatures.signature
            cases = [
                ('merge', (opt, req_)), ('merge', (req_, opt)), ('merge', (none, opt)), ('merge', (opt, none)),
                ('merge', (opt, opt)), ('merge', (kwopt, kwreq)), ('merge', (kwreq, kwopt)), ('merge', (none, kwopt)),
                ('merge', (kwopt, kwopt)), ('merge', (bare, opt)), ('merge', (opt, bare)),
                ('embed', (outer, inner_opt)), ('embed', (bare, inner_opt)), ('embed', (bare, opt)),
            ]
            for opname, fs in cases:
                txt = '%s(%s) with a default that is %s' % (opname, ', '.join(str(S(f)) for f in fs), label)
                try:
                    R = getattr(signatures, opname)(*[S(f) for f in fs])
                except signatures.IncompatibleSignatures as e:
                    R = None
                except Exception as e:  # noqa
                    problems.append('unusual-eq-default-raises: %s raised %s: %s' % (txt, type(e).__name__, e))
                    continue
                if opname == 'merge':
                    common = [(a, k) for a, k in shapes if all(_runs(f, a, k) for f in fs) and 'x' not in k]
                    if R is None:
                        if common:
                            problems.append('unusual-eq-default-incompatible: %s raised IncompatibleSignatures although every input '
                                            'accepts the call %s' % (txt, common[0]))
                        continue
                    for a, k in shapes:
                        if 'x' in k:
                            continue
                        if _accepts(R, a, k) and not all(_runs(f, a, k) for f in fs):
                            problems.append('unusual-eq-default-unsound: %s = %s accepts %s, which an input rejects' % (txt, R, (a, k)))
                            break
                        if not _accepts(R, a, k) and all(_runs(f, a, k) for f in fs) and not (k and fs[0] is bare or k and fs[1] is bare and False):
                            if all('a' in inspect.signature(f).parameters or f is bare for f in fs) or not k:
                                problems.append('unusual-eq-default-inexact: %s = %s rejects %s, which every input accepts' % (txt, R, (a, k)))
                                break
                    if fs[0] is fs[1] and [ (p.name, p.kind, p.default is p.empty) for p in R.parameters.values()] != \
                            [(p.name, p.kind, p.default is p.empty) for p in S(fs[0]).parameters.values()]:
                        problems.append('unusual-eq-default-idempotence: %s = %s' % (txt, R))
                    elif fs[0] is fs[1] and any(p.default is not S(fs[0]).parameters[p.name].default for p in R.parameters.values()):
                        problems.append('unusual-eq-default-idempotence-value: %s = %s: merge(s, s) does not keep the default object of s' % (txt, R))
                    if bare in fs:
                        other = fs[0] if fs[1] is bare else fs[1]
                        if [(p.name, p.default is p.empty) for p in R.parameters.values() if p.kind not in (p.VAR_POSITIONAL, p.VAR_KEYWORD)] != \
                                [(p.name, p.default is p.empty) for p in S(other).parameters.values()]:
                            problems.append('unusual-eq-default-neutral: %s = %s' % (txt, R))
                else:
                    if R is None:
                        problems.append('unusual-eq-default-incompatible: %s raised IncompatibleSignatures although no name is shared and '
                                        'the inner parameter is optional' % txt)
                        continue
                    want = 'q, x=' if fs[0] is outer else ('x=' if fs[1] is inner_opt else 'a=')
                    got = [(p.name, p.default is p.empty) for p in R.parameters.values()]
                    exp = ([('q', True)] if fs[0] is outer else []) + [('x' if fs[1] is inner_opt else 'a', False)]
                    if got != exp:
                        problems.append('unusual-eq-default-embed: %s = %s, expected the parameters %s' % (txt, R, exp))
    return ('ok', tuple(problems[:3]), 'probed')


RT['eq_defaults'] = rt_eq_defaults
