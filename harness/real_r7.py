"""harness/real_r7.py — runtime probes added in round 7 (each returns ('ok', problems, tag); a problem's text starts with a
stable key followed by ':').  They run the REAL code only: what they check lies outside the token model (default objects
with unusual `==`, warnings turned into errors, receiver names, ...) and is stated from the property text.
"""
import inspect, warnings, functools
from . import core
from .core import sigtools, signatures

RT = {}


# ----------------------------------------------------------------------------- defaults with an unusual ==
class _Any(object):
    """a default that compares equal to everything (unittest.mock.ANY, wildcard markers)"""
    def __eq__(self, other): return True
    def __ne__(self, other): return False
    __hash__ = object.__hash__
    def __repr__(self): return '<ANY>'


class _Never(object):
    """a default that compares equal to nothing, itself included (float('nan'))"""
    def __eq__(self, other): return False
    def __ne__(self, other): return True
    __hash__ = object.__hash__
    def __repr__(self): return '<NEVER>'


class _ArrayLike(object):
    """a default whose == returns an object without a truth value (numpy arrays)"""
    class _R(object):
        def __bool__(self): raise ValueError('The truth value of an array is ambiguous')

    def __eq__(self, other): return self._R()
    def __ne__(self, other): return self._R()
    __hash__ = object.__hash__
    def __repr__(self): return '<ARRAY>'


def _accepts(sig, a, k):
    try:
        sig.bind(*a, **k)
        return True
    except TypeError:
        return False


def _runs(f, a, k):
    try:
        f(*a, **k)
        return True
    except TypeError:
        return False


def rt_eq_defaults(req):
    """the algebra decides "has a default" by identity with the `empty` sentinel, as inspect does: a default object whose `==`
    answers True for everything / False for everything / something without a truth value is still a default"""
    problems = []
    shapes = [((), {}), ((0,), {}), ((0, 0), {}), ((), {'a': 0}), ((0,), {'a': 0}), ((), {'x': 0}), ((0,), {'x': 0})]
    for label, dv in (('equal-to-everything', _Any()), ('equal-to-nothing', _Never()), ('array-like', _ArrayLike())):
        def opt(a=dv): return None
        def req_(a): return None
        def none(): return None
        def kwopt(*, a=dv): return None
        def kwreq(*, a): return None
        def outer(q, *args, **kwargs): return None
        def inner_opt(x=dv): return None
        def bare(*args, **kwargs): return None
        with warnings.catch_warnings():
            warnings.simplefilter('ignore')
            S = signatures.signature
            cases = [
                ('merge', (opt, req_)), ('merge', (req_, opt)), ('merge', (none, opt)), ('merge', (opt, none)),
                ('merge', (opt, opt)), ('merge', (kwopt, kwreq)), ('merge', (kwreq, kwopt)), ('merge', (none, kwopt)),
                ('merge', (kwopt, kwopt)), ('merge', (bare, opt)), ('merge', (opt, bare)),
                ('embed', (outer, inner_opt)), ('embed', (bare, inner_opt)), ('embed', (bare, opt)),
            ]
            for opname, fs in cases:
                txt = '%s(%s) with a default that is %s' % (opname, ', '.join(str(S(f)) for f in fs), label)
                try:
                    R = getattr(signatures, opname)(*[S(f) for f in fs])
                except signatures.IncompatibleSignatures as e:
                    R = None
                except Exception as e:  # noqa
                    problems.append('unusual-eq-default-raises: %s raised %s: %s' % (txt, type(e).__name__, e))
                    continue
                if opname == 'merge':
                    common = [(a, k) for a, k in shapes if all(_runs(f, a, k) for f in fs) and 'x' not in k]
                    if R is None:
                        if common:
                            problems.append('unusual-eq-default-incompatible: %s raised IncompatibleSignatures although every input '
                                            'accepts the call %s' % (txt, common[0]))
                        continue
                    for a, k in shapes:
                        if 'x' in k:
                            continue
                        if _accepts(R, a, k) and not all(_runs(f, a, k) for f in fs):
                            problems.append('unusual-eq-default-unsound: %s = %s accepts %s, which an input rejects' % (txt, R, (a, k)))
                            break
                        if not _accepts(R, a, k) and all(_runs(f, a, k) for f in fs) and not (k and fs[0] is bare or k and fs[1] is bare and False):
                            if all('a' in inspect.signature(f).parameters or f is bare for f in fs) or not k:
                                problems.append('unusual-eq-default-inexact: %s = %s rejects %s, which every input accepts' % (txt, R, (a, k)))
                                break
                    if fs[0] is fs[1] and [ (p.name, p.kind, p.default is p.empty) for p in R.parameters.values()] != \
                            [(p.name, p.kind, p.default is p.empty) for p in S(fs[0]).parameters.values()]:
                        problems.append('unusual-eq-default-idempotence: %s = %s' % (txt, R))
                    elif fs[0] is fs[1] and any(p.default is not S(fs[0]).parameters[p.name].default for p in R.parameters.values()):
                        problems.append('unusual-eq-default-idempotence-value: %s = %s: merge(s, s) does not keep the default object of s' % (txt, R))
                    if bare in fs:
                        other = fs[0] if fs[1] is bare else fs[1]
                        if [(p.name, p.default is p.empty) for p in R.parameters.values() if p.kind not in (p.VAR_POSITIONAL, p.VAR_KEYWORD)] != \
                                [(p.name, p.default is p.empty) for p in S(other).parameters.values()]:
                            problems.append('unusual-eq-default-neutral: %s = %s' % (txt, R))
                else:
                    if R is None:
                        problems.append('unusual-eq-default-incompatible: %s raised IncompatibleSignatures although no name is shared and '
                                        'the inner parameter is optional' % txt)
                        continue
                    want = 'q, x=' if fs[0] is outer else ('x=' if fs[1] is inner_opt else 'a=')
                    got = [(p.name, p.default is p.empty) for p in R.parameters.values()]
                    exp = ([('q', True)] if fs[0] is outer else []) + [('x' if fs[1] is inner_opt else 'a', False)]
                    if got != exp:
                        problems.append('unusual-eq-default-embed: %s = %s, expected the parameters %s' % (txt, R, exp))
    return ('ok', tuple(problems[:3]), 'probed')


RT['eq_defaults'] = rt_eq_defaults


# ----------------------------------------------------------------------------- C07: more adversarial callables (round 7)
ADV2_SOURCES = '''
import functools, unittest.mock, random
from sigtools import specifiers, modifiers
def g(a, b=1, *, c=2): return a
class EqArray:
    # a callable whose == does not answer with a bool (arrays, symbolic expressions)
    def __eq__(self, other): return _NoTruth()
    __hash__ = object.__hash__
    def __call__(self, x, y=0): return x
class _NoTruth:
    def __bool__(self): raise ValueError("truth value is ambiguous")
eqarr = EqArray()
def fwd_eqarr(*args, **kwargs): return eqarr(*args, **kwargs)
class MissingTarget:
    @specifiers.forwards_to_method('missing')
    def m(self, *args, **kwargs): return self.missing(*args, **kwargs)
    def via(self, *args, **kwargs): return self.m(*args, **kwargs)
missing_inst = MissingTarget()
def fwd_missing(*args, **kwargs): return missing_inst.m(*args, **kwargs)
def deep_expr(a, *args, **kwargs):
    return g(*args, **kwargs) and (%s)
def loop1(*args, **kwargs): return g(*args, **kwargs)
loop1.__wrapped__ = loop1
def loop2a(*args, **kwargs): return g(*args, **kwargs)
def loop2b(*args, **kwargs): return g(*args, **kwargs)
loop2b.__annotations__ = loop2a.__annotations__
loop2a.__wrapped__ = loop2b
loop2b.__wrapped__ = loop2a
class Plain:
    def __init__(self, u, v=1): pass
def wraps_class(*args, **kwargs): return Plain(*args, **kwargs)
wraps_class.__wrapped__ = Plain
class Holder:
    @staticmethod
    def sm(a, b): return a
    @classmethod
    def cm(cls, a, b=1): return a
    def im(self, a, b=2): return a
class HolderSub(Holder):
    pass
bound_im = Holder().im
rand_like = random.Random(0).randint
mock_obj = unittest.mock.Mock()
OBJECTS = [eqarr, fwd_eqarr, missing_inst.via, fwd_missing, deep_expr, loop1, loop2a, wraps_class, mock_obj]
DECLARED = [missing_inst.m]
HOOK = ['Holder.sm', 'Holder.cm', 'Holder.im', 'HolderSub.sm', 'HolderSub.cm', 'HolderSub.im', 'bound_im', 'rand_like', 'g']
''' % ' + '.join(['a'] * 700)


class _Timeout(BaseException):
    pass


def _alarm(*a):
    raise _Timeout()


def _outcome(fn, obj, secs=10):
    import signal
    old = signal.signal(signal.SIGALRM, _alarm)
    signal.alarm(secs)
    try:
        try:
            with warnings.catch_warnings():
                warnings.simplefilter('ignore')
                r = fn(obj)
        except _Timeout:
            return ('hangs', 'no answer after %d s' % secs, None)
        except BaseException as e:  # noqa
            return ('raised', type(e).__name__, None)
        return ('ok', type(r).__name__, r)
    finally:
        signal.alarm(0)
        signal.signal(signal.SIGALRM, old)


def rt_adversarial2(req):
    """C07 on further adversarial callables: whatever inspect.signature answers, the three retrieval functions answer (same
    exception class when it raises); the attributes of the objects are what they were; the Sphinx hook prints what
    inspect prints for static / class / instance methods reached through a class or as module-level bound methods"""
    import sys as _sys
    from . import progs
    from sigtools import specifiers, sphinxext
    mod, fname = progs.load_module(ADV2_SOURCES)
    problems = []
    n = 0
    try:
        for declared, objs in ((False, mod.OBJECTS), (True, mod.DECLARED)):
            for obj in objs:
                n += 1
                before = {k: sorted(vars(o)) for k, o in (('obj', obj), ('Plain', mod.Plain)) if hasattr(o, '__dict__')}
                insp = _outcome(inspect.signature, obj)
                for name, fn in (('sigtools.signature', sigtools.signature),
                                 ('signature(auto=False)', lambda o: specifiers.signature(o, auto=False)),
                                 ('signatures.signature', signatures.signature)):
                    o = _outcome(fn, obj)
                    what = getattr(obj, '__qualname__', None) or type(obj).__name__
                    if o[0] == 'hangs':
                        problems.append('retrieval-hangs: %s(%s): %s (inspect.signature: %s %s)' % (name, what, o[1], insp[0], insp[1]))
                    elif insp[0] == 'ok' and o[0] != 'ok':
                        if declared and o[1] == 'ValueError':
                            continue        # an explicit declaration that cannot be honoured surfaces as ValueError
                        key = 'retrieval-raises'
                        if type(obj).__module__ == 'unittest.mock':
                            key = 'retrieval-raises-answers-every-attribute'
                        problems.append('%s: %s(%s) raised %s although inspect.signature succeeds' % (key, name, what, o[1]))
                    elif insp[0] == 'raised' and o[0] == 'raised' and o[1] != insp[1]:
                        problems.append('different-exception: %s(%s) raised %s, inspect.signature raised %s' % (name, what, o[1], insp[1]))
                    elif insp[0] == 'raised' and o[0] == 'ok':
                        problems.append('answers-where-inspect-raises: %s(%s) returned %s, inspect.signature raised %s' % (name, what, o[2], insp[1]))
                after = {k: sorted(vars(o)) for k, o in (('obj', obj), ('Plain', mod.Plain)) if hasattr(o, '__dict__')}
                if after != before:
                    problems.append('retrieval-leaves-attributes: after retrieving the signature of %s the attributes are %s, were %s' % (
                        getattr(obj, '__qualname__', obj), after, before))
        _sys.modules[mod.__name__] = mod
        try:
            for dotted in mod.HOOK:
                o = mod
                for part in dotted.split('.'):
                    o = getattr(o, part)
                if '.' in dotted and isinstance(o, type(rt_adversarial2)) and not isinstance(
                        inspect.getattr_static(getattr(mod, dotted.split('.')[0]), dotted.split('.')[1]), staticmethod):
                    # an instance method reached through its class is documented as called on an instance
                    o = getattr(getattr(mod, dotted.split('.')[0])(), dotted.split('.')[1])
                want_sig = inspect.signature(o)
                want = (str(want_sig.replace(return_annotation=want_sig.empty)), '')
                try:
                    with warnings.catch_warnings():
                        warnings.simplefilter('ignore')
                        r = sphinxext.process_signature(None, 'function', mod.__name__ + '.' + dotted, None, None, '(PASSED)', 'RET')
                except BaseException as e:  # noqa
                    problems.append('sphinx-hook-raises: process_signature(%s) raised %s: %s' % (dotted, type(e).__name__, str(e)[:80]))
                    continue
                if r != want:
                    problems.append('sphinx-hook-strings: process_signature(%s) returned %r; calling it takes %r' % (dotted, r, want))
        finally:
            _sys.modules.pop(mod.__name__, None)
    finally:
        progs.unload(fname)
    return ('ok', tuple(problems[:14]), 'objects:%d' % n)


RT['adversarial2'] = rt_adversarial2


# ----------------------------------------------------------------------------- C11: scopes inside annotations; own annotations spelled alike
_SCOPE_SRC = '''
import typing, functools
LIMIT = 5
ENABLED = ('a', 'b')
SHAPES = {'a': int, 'b': str, 'c': bytes}
class Check:
    def __init__(self, fn): self.fn = fn
def genexp(x: typing.Union[tuple(SHAPES[n] for n in ENABLED)], *args, **kwargs) -> typing.Tuple[tuple(SHAPES[n] for n in ENABLED)]:
    return target(*args, **kwargs)
def listcomp(x: typing.Tuple[tuple([SHAPES[n] for n in ENABLED])] = None): return x
def lam(x: typing.Annotated[int, Check(lambda v: v < LIMIT)] = 0): return x
def target(p: typing.Optional[SHAPES['c']] = None, *, q: typing.Annotated[str, Check(lambda v: len(v) < LIMIT)] = ''): return p
'''

_LIB_SRC = '''
import functools
class Result: pass
def deco(fn):
    def wrapper(*args, **kwargs) -> Result:
        return fn(*args, **kwargs)
    # a decorator that keeps the wrapper's OWN annotations: only the name and __wrapped__ are taken from fn
    return functools.wraps(fn, assigned=('__name__', '__qualname__', '__doc__'), updated=())(wrapper)
'''
_APP_SRC = '''
class Result: pass
def compute(x, y=2) -> Result:
    return Result()
'''


def rt_annot_scopes(req):
    """C11: (1) a postponed annotation is an expression: generator expressions, comprehensions and lambdas inside it resolve the
    module's names exactly as in the eagerly compiled twin; (2) a wrapper that declares __wrapped__ but has annotations of its
    own, spelled like those of the function it wraps (both `-> Result`, two modules, two classes), keeps ITS annotation"""
    from . import progs
    problems = []
    mods = {}
    loaded = []
    try:
        for post in (False, True):
            head = 'from __future__ import annotations\n' if post else ''
            m, fn = progs.load_module(head + _SCOPE_SRC)
            loaded.append(fn)
            mods[post] = m
        with warnings.catch_warnings():
            warnings.simplefilter('ignore')
            for fname, op in (('genexp', 'signature'), ('genexp', 'auto=False'), ('listcomp', 'signature'), ('lam', 'signature'), ('target', 'signature'),
                              ('genexp', 'mask'), ('target', 'partial'), ('genexp', 'merge')):
                vals = {}
                for post in (False, True):
                    f = getattr(mods[post], fname)
                    try:
                        if op == 'signature':
                            sg = sigtools.signature(f)
                        elif op == 'auto=False':
                            from sigtools import specifiers
                            sg = specifiers.signature(f, auto=False)
                        elif op == 'mask':
                            sg = signatures.mask(signatures.signature(f), 0, hide_varargs=True)
                        elif op == 'partial':
                            sg = signatures.signature(functools.partial(f, q='zz'))
                        else:
                            sg = signatures.merge(signatures.signature(f), signatures.signature(f))
                        ev = sg.evaluated()
                        desc = []

                        def dsc(a, empty):
                            # Annotated[...] carries freshly made objects: describe it by its origin and by what its checks answer
                            if a is empty:
                                return None
                            if hasattr(a, '__metadata__'):
                                return (repr(a.__origin__), [mm.fn(3 if a.__origin__ is int else 'abc') for mm in a.__metadata__])
                            return repr(a)
                        for q in list(ev.parameters.values()):
                            desc.append((q.name, dsc(q.annotation, q.empty)))
                            sv = sg.parameters[q.name].upgraded_annotation.source_value()
                            if dsc(sv, q.empty) != dsc(q.annotation, q.empty):
                                desc.append((q.name, 'source_value differs', dsc(sv, q.empty)))
                        desc.append(('return', None if ev.return_annotation is ev.empty else repr(ev.return_annotation)))
                        vals[post] = desc
                    except Exception as e:  # noqa
                        vals[post] = 'raised %s: %s' % (type(e).__name__, str(e)[:80])
                if vals[False] != vals[True]:
                    problems.append('annotation-scope: %s of %s: the eagerly compiled twin gives %s, the postponed one %s' % (op, fname, vals[False], vals[True]))
        # (2)
        for post_lib in (False, True):
            for post_app in (False, True):
                lib, f1 = progs.load_module(('from __future__ import annotations\n' if post_lib else '') + _LIB_SRC)
                app, f2 = progs.load_module(('from __future__ import annotations\n' if post_app else '') + _APP_SRC)
                loaded += [f1, f2]
                w = lib.deco(app.compute)
                with warnings.catch_warnings():
                    warnings.simplefilter('ignore')
                    for label, get in (('sigtools.signature', sigtools.signature), ('signatures.signature', signatures.signature)):
                        try:
                            sg = get(w)
                            r = sg.evaluated().return_annotation
                            sv = sg.upgraded_return_annotation.source_value()
                        except Exception as e:  # noqa
                            problems.append('own-annotation-raises: %s(wrapper).evaluated() raised %s: %s (lib postponed=%s, app postponed=%s)' % (
                                label, type(e).__name__, e, post_lib, post_app))
                            continue
                        if label == 'signatures.signature':
                            continue      # plain retrieval follows __wrapped__: the wrapped function's own `Result`
                        if r is not lib.Result or sv is not lib.Result:
                            problems.append('own-annotation-reassigned: the wrapper declares `-> Result` in ITS module; %s(wrapper) evaluates it to %r '
                                            '(source_value %r), the class of %s (lib postponed=%s, app postponed=%s)' % (
                                                label, r, sv, 'the wrapped function\'s module' if r is app.Result else '?', post_lib, post_app))
    finally:
        for fn in loaded:
            progs.unload(fn)
    return ('ok', tuple(problems[:4]), 'probed')


RT['annot_scopes'] = rt_annot_scopes


# ----------------------------------------------------------------------------- C07: retrieval from a thread that did not import sigtools
def rt_other_thread(req):
    """what a retrieval answers (or raises) does not depend on the thread asking: a fresh thread gets the answer of the main one"""
    import threading
    from sigtools import specifiers

    def g(a, b=1, *, c=2): return a
    def fwd(x, *args, **kwargs): return g(*args, **kwargs)

    class K:
        def __init__(self, u, v=1): pass
        def m(self, *args, **kwargs): return g(*args, **kwargs)
    objs = [g, fwd, K, K(1).m, functools.partial(fwd, 1), max, 42, len]
    problems = []

    def outcomes():
        out = []
        for o in objs:
            for nm, fn in (('sigtools.signature', sigtools.signature), ('signature(auto=False)', lambda x: specifiers.signature(x, auto=False)),
                           ('signatures.signature', signatures.signature)):
                try:
                    with warnings.catch_warnings():
                        warnings.simplefilter('ignore')
                        out.append((nm, 'ok', str(fn(o))))
                except BaseException as e:  # noqa
                    out.append((nm, 'raised', type(e).__name__))
        return out
    main = outcomes()
    box = []
    for round_ in range(2):
        t = threading.Thread(target=lambda: box.append(outcomes()))
        t.start()
        t.join(60)
        if t.is_alive() or len(box) <= round_:
            problems.append('other-thread-no-answer: a fresh thread did not finish its retrievals')
            break
        for (nm, a, b), (_, c, d), o in zip(main, box[round_], [o for o in objs for _ in range(3)]):
            if (a, b) != (c, d):
                problems.append('other-thread-differs: %s(%r) answers %s %s in the main thread, %s %s in a fresh thread' % (nm, o, a, b, c, d))
                break
    return ('ok', tuple(problems[:3]), 'probed')


RT['other_thread'] = rt_other_thread


# ----------------------------------------------------------------------------- C13 / C18: a wrapper above classmethod / staticmethod, looked up on classes and instances
def rt_owner_binding(req):
    """a wrapper_decorator / decorator wrapper sitting ABOVE classmethod or staticmethod: looked up on the class, a subclass, an
    instance of either, in any order and repeatedly, it is bound to the right owner, returns what the hand-written composition
    returns and shows one and the same signature"""
    from sigtools import wrappers
    problems = []

    @wrappers.wrapper_decorator
    def tagged(wrapped, *args, **kwargs):
        return ('t', wrapped(*args, **kwargs))

    @wrappers.decorator
    def tagged_d(wrapped, *args, **kwargs):
        return ('t', wrapped(*args, **kwargs))

    for label, deco in (('wrapper_decorator', tagged), ('decorator', tagged_d)):
        class Base(object):
            @deco
            @classmethod
            def make(cls, a, b=1):
                return (cls.__name__, a, b)

            @deco
            @staticmethod
            def stat(a, b=1):
                return ('s', a, b)

            @deco
            def inst(self, a, b=1):
                return (type(self).__name__, a, b)

        class Sub(Base):
            pass
        sigs = set()
        for rnd in range(2):
            for via, owner in (('Base', Base), ('Base()', Base()), ('Sub', Sub), ('Sub()', Sub()), ('Base', Base)):
                oname = 'Sub' if 'Sub' in via else 'Base'
                for attr, want in (('make', ('t', (oname, 5, 1))), ('stat', ('t', ('s', 5, 1)))) + \
                        ((('inst', ('t', (oname, 5, 1))),) if via.endswith('()') else ()):
                    try:
                        with warnings.catch_warnings():
                            warnings.simplefilter('ignore')
                            m = getattr(owner, attr)
                            sg = str(sigtools.signature(m))
                            got = m(5)
                    except Exception as e:  # noqa
                        problems.append('owner-binding-raises: %s.%s (a %s wrapper above %s) raised %s: %s' % (
                            via, attr, label, {'make': 'classmethod', 'stat': 'staticmethod', 'inst': 'a plain method'}[attr], type(e).__name__, str(e)[:80]))
                        continue
                    if got != want:
                        problems.append('owner-binding-result: %s.%s(5) returned %r, the composition returns %r (%s)' % (via, attr, got, want, label))
                    sigs.add((attr, sg))
        for attr in ('make', 'stat', 'inst'):
            seen = sorted(s for a, s in sigs if a == attr)
            if len(seen) > 1 or (seen and seen[0] != '(a, b=1)'):
                problems.append('owner-binding-signature: %s looked up on classes and instances shows the signatures %s (%s); calling it takes (a, b=1)' % (attr, seen, label))
    return ('ok', tuple(problems[:4]), 'probed')


RT['owner_binding'] = rt_owner_binding


# ----------------------------------------------------------------------------- C07: the fallback chain of forged_signature vs Model/Chain.lean
OPS = {}
_CHAIN_EXC = None


def _chain_exc():
    global _CHAIN_EXC
    if _CHAIN_EXC is None:
        from sigtools import _autoforwards
        _CHAIN_EXC = {'valueError': ValueError, 'typeError': TypeError, 'keyError': KeyError, 'attributeError': AttributeError,
                      'indexError': IndexError, 'unknownForwards': _autoforwards.UnknownForwards}
    return _CHAIN_EXC


def chain_line(req):
    _, auto, f, h, a, p, stage = req
    if stage == 'ast' and h == 'EunknownForwards':
        h = 'U'          # autoforwards_ast raising UnknownForwards is the caught outcome `U` of the model
    return 'chain %d %s %s %s %s' % (auto, f, h, a, p)


def real_chain(req):
    """forged_signature with its four components replaced by stubs that return / raise what the request says:
    which component decides, which exceptions are caught, which escape"""
    from sigtools import _specifiers, _autoforwards, _signatures
    _, auto, f, h, a, p, stage = req
    EXC = _chain_exc()
    REV = {v: k for k, v in EXC.items()}

    def mk(k):
        return _signatures.UpgradedSignature._upgrade(inspect.Signature(return_annotation=k), None, {})

    def act(tok):
        if tok == 'N':
            return lambda: None
        if tok == 'U':
            def r():
                raise EXC['unknownForwards']()
            return r
        if tok[0] == 'S':
            return lambda: mk(int(tok[1:]))

        def r2():
            raise EXC[tok[1:]]()
        return r2

    class O(object):
        def __call__(self):
            pass
    o = O()
    astact = None
    if f != '-':
        fa = act(f)
        o._sigtools__forger = lambda obj: fa()
    if h != '-':
        if h == 'N':
            o._sigtools__autoforwards_hint = lambda s: None
        elif h[0] == 'E' and stage == 'callable':
            ha = act(h)
            o._sigtools__autoforwards_hint = lambda s: ha()
        else:
            o._sigtools__autoforwards_hint = lambda s: (1, 2, 3)
            astact = act(h)
    aa, pa = act(a), act(p)
    saved = (_autoforwards.autoforwards, _autoforwards.autoforwards_ast, _signatures.signature)
    _autoforwards.autoforwards = lambda *x, **k: aa()
    _autoforwards.autoforwards_ast = lambda *x, **k: astact()
    _signatures.signature = lambda *x, **k: pa()
    try:
        try:
            with warnings.catch_warnings():
                warnings.simplefilter('ignore')
                r = _specifiers.forged_signature(o, auto=bool(auto))
            return ('ok', r.return_annotation)
        except Exception as e:  # noqa
            return ('err', REV.get(type(e), type(e).__name__))
    finally:
        _autoforwards.autoforwards, _autoforwards.autoforwards_ast, _signatures.signature = saved


OPS['chain'] = real_chain


def parse_chain(ml):
    toks = ml.split()
    if toks[0] == 'ok':
        return ('ok', int(toks[1]))
    return ('err', toks[1])


# ----------------------------------------------------------------------------- C18: which instance a looked-up wrapper is bound to vs Model/CacheId.lean
def real_cacheid(req):
    """a modifiers-decorated method looked up through instances that may compare (and hash) EQUAL, the wrappers held,
    dropped, collected, the method called, the class accessed: every lookup answers with a wrapper bound to the instance
    it was made through (model: Model/CacheId.lean, identity mode)"""
    import gc, weakref
    from sigtools import modifiers
    _, deco, ops = req

    class C(object):
        def __init__(s, label, c):
            s.label = label
            s.c = c

        def __eq__(s, o):
            return isinstance(o, C) and s.c == o.c

        def __hash__(s):
            return hash(s.c)

        def m(self, a, b=1):
            return self
    C.m = {'kwoargs': modifiers.kwoargs('b'), 'posoargs': modifiers.posoargs(end='a'), 'autokwoargs': modifiers.autokwoargs}[deco](C.m)
    if hasattr(C.m, '__set_name__'):
        pass
    reg, held, slots, out = {}, {}, {}, []
    for op in ops:
        t = op.split(':')
        if t[0] == 'new':
            i, c = int(t[1]), int(t[2])
            o = reg[i]() if i in reg else None
            if o is None:
                o = C(i, c)
                reg[i] = weakref.ref(o)
            held[i] = o
            del o
        elif t[0] == 'get':
            i = int(t[1])
            if i in held:
                w = held[i].m
                slots.setdefault(i, []).append(w)
                out.append(str(w.func.__self__.label))
                del w
            else:
                out.append('X')
        elif t[0] == 'call':
            i = int(t[1])
            if i in held:
                out.append(str(held[i].m(0).label))
            else:
                out.append('X')
        elif t[0] == 'dropw':
            slots.pop(int(t[1]), None)
        elif t[0] == 'dropi':
            held.pop(int(t[1]), None)
        elif t[0] == 'gc':
            gc.collect()
        elif t[0] == 'cls':
            out.append('D' if C.m is C.__dict__['m'] else '?')
    return ('ok', '.'.join(out) if out else '_')


OPS['cacheid'] = real_cacheid
