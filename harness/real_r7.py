"""harness/real_r7.py — runtime probes added in round 7 (each returns ('ok', problems, tag); a problem's text starts with a
stable key followed by ':').  They run the REAL code only: what they check lies outside the token model (default objects
with unusual `==`, warnings turned into errors, receiver names, ...) and is stated from the property text.
"""
import inspect, warnings, functools
from . import core
from .core import sigtools, signatures

RT = {}


# ----------------------------------------------------------------------------- defaults with an unusual ==
class _Any(object):
    """a default that compares equal to everything (unittest.mock.ANY, wildcard markers)"""
    def __eq__(self, other): return True
    def __ne__(self, other): return False
    __hash__ = object.__hash__
    def __repr__(self): return '<ANY>'


class _Never(object):
    """a default that compares equal to nothing, itself included (float('nan'))"""
    def __eq__(self, other): return False
    def __ne__(self, other): return True
    __hash__ = object.__hash__
    def __repr__(self): return '<NEVER>'


class _ArrayLike(object):
    """a default whose == returns an object without a truth value (numpy arrays)"""
    class _R(object):
        def __bool__(self): raise ValueError('The truth value of an array is ambiguous')

    def __eq__(self, other): return self._R()
    def __ne__(self, other): return self._R()
    __hash__ = object.__hash__
    def __repr__(self): return '<ARRAY>'


def _accepts(sig, a, k):
    try:
        sig.bind(*a, **k)
        return True
    except TypeError:
        return False


def _runs(f, a, k):
    try:
        f(*a, **k)
        return True
    except TypeError:
        return False


def rt_eq_defaults(req):
    """the algebra decides "has a default" by identity with the `empty` sentinel, as inspect does: a default object whose `==`
    answers True for everything / False for everything / something without a truth value is still a default"""
    problems = []
    shapes = [((), {}), ((0,), {}), ((0, 0), {}), ((), {'a': 0}), ((0,), {'a': 0}), ((), {'x': 0}), ((0,), {'x': 0})]
    for label, dv in (('equal-to-everything', _Any()), ('equal-to-nothing', _Never()), ('array-like', _ArrayLike())):
        def opt(a=dv): return None
        def req_(a): return None
        def none(): return None
        def kwopt(*, a=dv): return None
        def kwreq(*, a): return None
        def outer(q, *args, **kwargs): return None
        def inner_opt(x=dv): return None
        def bare(*args, **kwargs): return None
        with warnings.catch_warnings():
            warnings.simplefilter('ignore')
            S = signatures.signature
            cases = [
                ('merge', (opt, req_)), ('merge', (req_, opt)), ('merge', (none, opt)), ('merge', (opt, none)),
                ('merge', (opt, opt)), ('merge', (kwopt, kwreq)), ('merge', (kwreq, kwopt)), ('merge', (none, kwopt)),
                ('merge', (kwopt, kwopt)), ('merge', (bare, opt)), ('merge', (opt, bare)),
                ('embed', (outer, inner_opt)), ('embed', (bare, inner_opt)), ('embed', (bare, opt)),
            ]
            for opname, fs in cases:
                txt = '%s(%s) with a default that is %s' % (opname, ', '.join(str(S(f)) for f in fs), label)
                try:
                    R = getattr(signatures, opname)(*[S(f) for f in fs])
                except signatures.IncompatibleSignatures as e:
                    R = None
                except Exception as e:  # noqa
                    problems.append('unusual-eq-default-raises: %s raised %s: %s' % (txt, type(e).__name__, e))
                    continue
                if opname == 'merge':
                    common = [(a, k) for a, k in shapes if all(_runs(f, a, k) for f in fs) and 'x' not in k]
                    if R is None:
                        if common:
                            problems.append('unusual-eq-default-incompatible: %s raised IncompatibleSignatures although every input '
                                            'accepts the call %s' % (txt, common[0]))
                        continue
                    for a, k in shapes:
                        if 'x' in k:
                            continue
                        if _accepts(R, a, k) and not all(_runs(f, a, k) for f in fs):
                            problems.append('unusual-eq-default-unsound: %s = %s accepts %s, which an input rejects' % (txt, R, (a, k)))
                            break
                        if not _accepts(R, a, k) and all(_runs(f, a, k) for f in fs) and not (k and fs[0] is bare or k and fs[1] is bare and False):
                            if all('a' in inspect.signature(f).parameters or f is bare for f in fs) or not k:
                                problems.append('unusual-eq-default-inexact: %s = %s rejects %s, which every input accepts' % (txt, R, (a, k)))
                                break
                    if fs[0] is fs[1] and [ (p.name, p.kind, p.default is p.empty) for p in R.parameters.values()] != \
                            [(p.name, p.kind, p.default is p.empty) for p in S(fs[0]).parameters.values()]:
                        problems.append('unusual-eq-default-idempotence: %s = %s' % (txt, R))
                    elif fs[0] is fs[1] and any(p.default is not S(fs[0]).parameters[p.name].default for p in R.parameters.values()):
                        problems.append('unusual-eq-default-idempotence-value: %s = %s: merge(s, s) does not keep the default object of s' % (txt, R))
                    if bare in fs:
                        other = fs[0] if fs[1] is bare else fs[1]
                        if [(p.name, p.default is p.empty) for p in R.parameters.values() if p.kind not in (p.VAR_POSITIONAL, p.VAR_KEYWORD)] != \
                                [(p.name, p.default is p.empty) for p in S(other).parameters.values()]:
                            problems.append('unusual-eq-default-neutral: %s = %s' % (txt, R))
                else:
                    if R is None:
                        problems.append('unusual-eq-default-incompatible: %s raised IncompatibleSignatures although no name is shared and '
                                        'the inner parameter is optional' % txt)
                        continue
                    want = 'q, x=' if fs[0] is outer else ('x=' if fs[1] is inner_opt else 'a=')
                    got = [(p.name, p.default is p.empty) for p in R.parameters.values()]
                    exp = ([('q', True)] if fs[0] is outer else []) + [('x' if fs[1] is inner_opt else 'a', False)]
                    if got != exp:
                        problems.append('unusual-eq-default-embed: %s = %s, expected the parameters %s' % (txt, R, exp))
    return ('ok', tuple(problems[:3]), 'probed')


RT['eq_defaults'] = rt_eq_defaults


# ----------------------------------------------------------------------------- C07: more adversarial callables (round 7)
ADV2_SOURCES = '''
import functools, unittest.mock, random
from sigtools import specifiers, modifiers
def g(a, b=1, *, c=2): return a
class EqArray:
    # a callable whose == does not answer with a bool (arrays, symbolic expressions)
    def __eq__(self, other): return _NoTruth()
    __hash__ = object.__hash__
    def __call__(self, x, y=0): return x
class _NoTruth:
    def __bool__(self): raise ValueError("truth value is ambiguous")
eqarr = EqArray()
def fwd_eqarr(*args, **kwargs): return eqarr(*args, **kwargs)
class MissingTarget:
    @specifiers.forwards_to_method('missing')
    def m(self, *args, **kwargs): return self.missing(*args, **kwargs)
    def via(self, *args, **kwargs): return self.m(*args, **kwargs)
missing_inst = MissingTarget()
def fwd_missing(*args, **kwargs): return missing_inst.m(*args, **kwargs)
def deep_expr(a, *args, **kwargs):
    return g(*args, **kwargs) and (%s)
def loop1(*args, **kwargs): return g(*args, **kwargs)
loop1.__wrapped__ = loop1
def loop2a(*args, **kwargs): return g(*args, **kwargs)
def loop2b(*args, **kwargs): return g(*args, **kwargs)
loop2b.__annotations__ = loop2a.__annotations__
loop2a.__wrapped__ = loop2b
loop2b.__wrapped__ = loop2a
class Plain:
    def __init__(self, u, v=1): pass
def wraps_class(*args, **kwargs): return Plain(*args, **kwargs)
wraps_class.__wrapped__ = Plain
class Holder:
    @staticmethod
    def sm(a, b): return a
    @classmethod
    def cm(cls, a, b=1): return a
    def im(self, a, b=2): return a
class HolderSub(Holder):
    pass
bound_im = Holder().im
rand_like = random.Random(0).randint
mock_obj = unittest.mock.Mock()
OBJECTS = [eqarr, fwd_eqarr, missing_inst.via, fwd_missing, deep_expr, loop1, loop2a, wraps_class, mock_obj]
DECLARED = [missing_inst.m]
HOOK = ['Holder.sm', 'Holder.cm', 'Holder.im', 'HolderSub.sm', 'HolderSub.cm', 'HolderSub.im', 'bound_im', 'rand_like', 'g']
''' % ' + '.join(['a'] * 700)


class _Timeout(BaseException):
    pass


def _alarm(*a):
    raise _Timeout()


def _outcome(fn, obj, secs=10):
    import signal
    old = signal.signal(signal.SIGALRM, _alarm)
    signal.alarm(secs)
    try:
        try:
            with warnings.catch_warnings():
                warnings.simplefilter('ignore')
                r = fn(obj)
        except _Timeout:
            return ('hangs', 'no answer after %d s' % secs, None)
        except BaseException as e:  # noqa
            return ('raised', type(e).__name__, None)
        return ('ok', type(r).__name__, r)
    finally:
        signal.alarm(0)
        signal.signal(signal.SIGALRM, old)


def rt_adversarial2(req):
    """C07 on further adversarial callables: whatever inspect.signature answers, the three retrieval functions answer (same
    exception class when it raises); the attributes of the objects are what they were; the Sphinx hook prints what
    inspect prints for static / class / instance methods reached through a class or as module-level bound methods"""
    import sys as _sys
    from . import progs
    from sigtools import specifiers, sphinxext
    mod, fname = progs.load_module(ADV2_SOURCES)
    problems = []
    n = 0
    try:
        for declared, objs in ((False, mod.OBJECTS), (True, mod.DECLARED)):
            for obj in objs:
                n += 1
                before = {k: sorted(vars(o)) for k, o in (('obj', obj), ('Plain', mod.Plain)) if hasattr(o, '__dict__')}
                insp = _outcome(inspect.signature, obj)
                for name, fn in (('sigtools.signature', sigtools.signature),
                                 ('signature(auto=False)', lambda o: specifiers.signature(o, auto=False)),
                                 ('signatures.signature', signatures.signature)):
                    o = _outcome(fn, obj)
                    what = getattr(obj, '__qualname__', None) or type(obj).__name__
                    if o[0] == 'hangs':
                        problems.append('retrieval-hangs: %s(%s): %s (inspect.signature: %s %s)' % (name, what, o[1], insp[0], insp[1]))
                    elif insp[0] == 'ok' and o[0] != 'ok':
                        if declared and o[1] == 'ValueError':
                            continue        # an explicit declaration that cannot be honoured surfaces as ValueError
                        key = 'retrieval-raises'
                        if type(obj).__module__ == 'unittest.mock':
                            key = 'retrieval-raises-answers-every-attribute'
                        problems.append('%s: %s(%s) raised %s although inspect.signature succeeds' % (key, name, what, o[1]))
                    elif insp[0] == 'raised' and o[0] == 'raised' and o[1] != insp[1]:
                        problems.append('different-exception: %s(%s) raised %s, inspect.signature raised %s' % (name, what, o[1], insp[1]))
                    elif insp[0] == 'raised' and o[0] == 'ok':
                        problems.append('answers-where-inspect-raises: %s(%s) returned %s, inspect.signature raised %s' % (name, what, o[2], insp[1]))
                after = {k: sorted(vars(o)) for k, o in (('obj', obj), ('Plain', mod.Plain)) if hasattr(o, '__dict__')}
                if after != before:
                    problems.append('retrieval-leaves-attributes: after retrieving the signature of %s the attributes are %s, were %s' % (
                        getattr(obj, '__qualname__', obj), after, before))
        _sys.modules[mod.__name__] = mod
        try:
            for dotted in mod.HOOK:
                o = mod
                for part in dotted.split('.'):
                    o = getattr(o, part)
                if '.' in dotted and isinstance(o, type(rt_adversarial2)) and not isinstance(
                        inspect.getattr_static(getattr(mod, dotted.split('.')[0]), dotted.split('.')[1]), staticmethod):
                    # an instance method reached through its class is documented as called on an instance
                    o = getattr(getattr(mod, dotted.split('.')[0])(), dotted.split('.')[1])
                want_sig = inspect.signature(o)
                want = (str(want_sig.replace(return_annotation=want_sig.empty)), '')
                try:
                    with warnings.catch_warnings():
                        warnings.simplefilter('ignore')
                        r = sphinxext.process_signature(None, 'function', mod.__name__ + '.' + dotted, None, None, '(PASSED)', 'RET')
                except BaseException as e:  # noqa
                    problems.append('sphinx-hook-raises: process_signature(%s) raised %s: %s' % (dotted, type(e).__name__, str(e)[:80]))
                    continue
                if r != want:
                    problems.append('sphinx-hook-strings: process_signature(%s) returned %r; calling it takes %r' % (dotted, r, want))
        finally:
            _sys.modules.pop(mod.__name__, None)
    finally:
        progs.unload(fname)
    return ('ok', tuple(problems[:14]), 'objects:%d' % n)


RT['adversarial2'] = rt_adversarial2
