"""harness/treeser.py — Python AST -> the generic tree of Model/Visitor.lean, as a prefix token stream.

Name/Attribute/Call(+Starred, **)/FunctionDef/Lambda/Nonlocal get their own constructors; every other node type
is `O` with its AST-valued fields in ast.iter_fields order (what ast.NodeVisitor.generic_visit traverses).
Binding forms that are not assignments to an ast.Name (`except E as n`, `import m as n`, `case n` / `case [*n]` /
`case {**n}`, `class n`, a nested `async def n`) are given to the model as what the real visitor makes of them
since repair D81: a store of that name (a synthetic `N n s` node) ahead of the node's own children.
Since repair D85 a nested plain `def n` is a store of `n` followed by the function: `O 2 (N n s) (F …)`
(Model/GrammarDef.namedDef; a lambda binds no name and stays a bare `F`).
The ROOT is serialised as a function definition when it is a (Async)FunctionDef (CallListerVisitor.__init__ reads
.args and .body of whatever it is given); a *nested* async def is an `O` node, like any node without a handler."""
import ast
from . import core

CTX = {ast.Load: 'l', ast.Store: 's', ast.Del: 'd'}


def nid(name):
    return str(core.NAMES.id(name))


def ser(node, out, root=False, nowrap=False):
    if isinstance(node, ast.Name):
        out += ['N', nid(node.id), CTX[type(node.ctx)]]
    elif isinstance(node, ast.Attribute):
        out.append('A')
        ser(node.value, out)
        out.append(nid(node.attr))
    elif isinstance(node, ast.Call):
        out.append('C')
        ser(node.func, out)
        out.append(str(len(node.args)))
        for a in node.args:
            if isinstance(a, ast.Starred):
                out.append('S')
                ser(a.value, out)
            else:
                out.append('P')
                ser(a, out)
        out.append(str(len(node.keywords)))
        for k in node.keywords:
            if k.arg is None:
                out.append('D')
                ser(k.value, out)
            else:
                out += ['K', nid(k.arg)]
                ser(k.value, out)
    elif isinstance(node, ast.FunctionDef) and not root and not nowrap:
        out += ['O', '2', 'N', nid(node.name), 's']
        ser(node, out, nowrap=True)
    elif isinstance(node, (ast.FunctionDef, ast.Lambda)) or (root and isinstance(node, ast.AsyncFunctionDef)):
        a = node.args
        body = node.body if isinstance(node.body, list) else [node.body]
        out.append('F')
        for lst in (a.posonlyargs, a.args, a.kwonlyargs):
            out.append(str(len(lst)))
            out += [nid(x.arg) for x in lst]
        out.append(nid(a.vararg.arg) if a.vararg else '-')
        out.append(nid(a.kwarg.arg) if a.kwarg else '-')
        out.append(str(len(body)))
        for b in body:
            ser(b, out)
    elif isinstance(node, ast.Nonlocal):
        out += ['G', str(len(node.names))] + [nid(n) for n in node.names]
    else:
        ch = []
        bound = None
        if isinstance(node, (ast.ExceptHandler, ast.MatchAs, ast.ClassDef, ast.AsyncFunctionDef)):
            bound = node.name
        elif isinstance(node, ast.alias):
            bound = node.asname or node.name.split('.')[0]
        elif isinstance(node, ast.MatchStar):
            bound = node.name
        elif isinstance(node, ast.MatchMapping):
            bound = node.rest
        if not isinstance(node, (ast.alias, ast.MatchStar)):
            for f, v in ast.iter_fields(node):
                if isinstance(v, list):
                    ch += [it for it in v if isinstance(it, ast.AST)]
                elif isinstance(v, ast.AST):
                    ch.append(v)
        out += ['O', str(len(ch) + (1 if bound else 0))]
        if bound:
            out += ['N', nid(bound), 's']
        for c in ch:
            ser(c, out)
    return out


def tree_line(node):
    return 'visit ' + ' '.join(ser(node, [], root=True))


def canon_marker(m):
    from sigtools import _autoforwards as AF
    if isinstance(m, AF.Unknown):
        return 'U'
    if isinstance(m, AF.Attribute):
        return 'A(%s.%s)' % (canon_marker(m.value), nid(m.attr))
    if isinstance(m, AF.Arg):
        return 'R' + nid(m.name)
    if isinstance(m, AF.Name):
        return 'M' + nid(m.name)
    raise core.CanonError('unexpected marker %r' % (m,))


def canon_calls(calls):
    out = []
    for c in calls:
        out.append('%s|%s|%s|%s|%s|%d%d%d%d' % (
            canon_marker(c.wrapped),
            ','.join(canon_marker(x) for x in c.args) or '_',
            ','.join('%s=%s' % (nid(k), canon_marker(v)) for k, v in c.kwargs.items()) or '_',
            '-' if c.varargs is None else canon_marker(c.varargs),
            '-' if c.varkwargs is None else canon_marker(c.varkwargs),
            c.use_varargs, c.use_varkwargs, c.hide_args, c.hide_kwargs))
    return ('ok', len(out), ';'.join(out) or '_')
