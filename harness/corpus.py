"""harness/corpus.py — the corpus of real programs: every function, method, class, partial and callable instance
reachable from the importable standard library and installed packages.  Built once per run in a subprocess-safe way
(stdin closed, modules with import side effects blacklisted), cached in memory per process."""
import sys, os, importlib, pkgutil, types, warnings, functools

BLACK = {'antigravity', 'this', 'idlelib', 'tkinter', 'turtle', 'turtledemo', '__main__', 'test', 'lib2to3', 'pty', 'tty',
         'curses', 'msvcrt', 'winreg', 'winsound', '_winapi', 'nt', 'ossaudiodev', 'spwd', 'crypt', 'nis', 'readline',
         'rlcompleter', 'webbrowser', 'pdb', 'code', 'codeop', 'cgitb', 'getpass', 'sre_compile', 'sre_constants', 'sre_parse'}
EXTRA = ('attr', 'docutils', 'jinja2', 'pygments', 'pytest', '_pytest', 'sphinx', 'repeated_test', 'sigtools',
         'sigtools.tests.test_autoforwards', 'sigtools.tests.test_specifiers', 'packaging', 'pluggy', 'babel', 'requests')
_CACHE = {}


def modules():
    if 'mods' in _CACHE:
        return _CACHE['mods']
    mods = []
    devnull = open(os.devnull)
    old_stdin = sys.stdin
    sys.stdin = devnull
    try:
        with warnings.catch_warnings():
            warnings.simplefilter('ignore')
            for name in sorted(sys.stdlib_module_names):
                if name in BLACK or name.startswith('_'):
                    continue
                try:
                    mods.append(importlib.import_module(name))
                except BaseException:  # noqa
                    pass
            for m in list(mods):
                if hasattr(m, '__path__'):
                    try:
                        infos = list(pkgutil.iter_modules(m.__path__, m.__name__ + '.'))
                    except BaseException:  # noqa
                        continue
                    for info in infos:
                        if any(b in info.name for b in ('test', '__main__', 'idlelib', 'tkinter')):
                            continue
                        try:
                            mods.append(importlib.import_module(info.name))
                        except BaseException:  # noqa
                            pass
            for extra in EXTRA:
                try:
                    m = importlib.import_module(extra)
                    mods.append(m)
                except BaseException:  # noqa
                    continue
                if hasattr(m, '__path__') and extra not in ('sigtools',):
                    for info in pkgutil.iter_modules(m.__path__, m.__name__ + '.'):
                        if 'test' in info.name or '__main__' in info.name:
                            continue
                        try:
                            mods.append(importlib.import_module(info.name))
                        except BaseException:  # noqa
                            pass
    finally:
        sys.stdin = old_stdin
    _CACHE['mods'] = mods
    return mods


def callables():
    """-> (functions, other callables), deterministic order"""
    if 'callables' in _CACHE:
        return _CACHE['callables']
    seen = set()
    funcs, others = [], []

    def add(o):
        if id(o) in seen:
            return
        seen.add(id(o))
        if isinstance(o, types.FunctionType):
            funcs.append(o)
        elif callable(o):
            others.append(o)
    for m in modules():
        for n, o in sorted(vars(m).items(), key=lambda kv: kv[0]):
            try:
                add(o)
                if isinstance(o, type):
                    for n2, o2 in sorted(vars(o).items(), key=lambda kv: kv[0]):
                        if isinstance(o2, (staticmethod, classmethod)):
                            o2 = o2.__func__
                        add(o2)
            except BaseException:  # noqa
                pass
    _CACHE['callables'] = (funcs, others)
    return funcs, others


def qual(o):
    return '%s.%s' % (getattr(o, '__module__', '?'), getattr(o, '__qualname__', getattr(o, '__name__', repr(o)[:40])))
