"""harness/real_rt.py — real-side adapters for the runtime properties:
C14 (==, !=, hash, str/bind/replace), C16 (fault injection into cleanup_functools_wrapper and into whole
retrievals), C17 (scheduler), C18 (descriptor cache histories, modifier order)."""
import gc, inspect, itertools, sys, threading, warnings, weakref, functools
from . import core
from .core import S
import sigtools
from sigtools import _autoforwards, _util, specifiers, modifiers, signatures, wrappers

# ----------------------------------------------------------------------------- C14
SIG_TABLE = [
    (),
    (core.P('a', 'pk'),),
    (core.P('a', 'pk', 1),),
    (core.P('a', 'po'), core.P('b', 'ko', 2)),
    (core.P('a', 'pk'), core.P('args', 'vp'), core.P('kwargs', 'vk')),
]
MENAGERIE = [None, 'x', 3, (1, 2), 3.5, b'z', frozenset(), type, Ellipsis]
_OBJ = {}


class _G:
    """a callable-like object carrying globals for a postponed annotation"""
    def __init__(self, ua):
        # ua >= 1000: the spelling `T` cannot be evaluated in these globals (a TYPE_CHECKING-only import, say);
        # such an annotation has no value: it equals only itself
        self.__globals__ = {'T': core.Ann(2 * ua)} if ua < 1000 else {}


def make_obj(desc):
    if desc in _OBJ:
        return _OBJ[desc]
    kind = desc[0]
    if kind == 'U':
        _, i, d, u = desc
        g = _G(u)
        params = [core.mk_param(p, core.Fn(1)) for p in SIG_TABLE[d % len(SIG_TABLE)]]
        o = S.UpgradedSignature(params, return_annotation='T',
                                upgraded_return_annotation=S._PostponedAnnotation('T', g), sources={'+depths': {}})
    elif kind == 'S':
        _, i, d = desc
        params = [inspect.Parameter(p[0], core.KINDS[p[1]], default=inspect.Parameter.empty if p[2] is None else p[2])
                  for p in SIG_TABLE[d % len(SIG_TABLE)]]
        o = inspect.Signature(params, return_annotation='T')
    elif kind == 'u':
        _, i, d, u = desc
        g = _G(u)
        o = S.UpgradedParameter('a', inspect.Parameter.POSITIONAL_OR_KEYWORD, default=d, annotation='T',
                                upgraded_annotation=S._PostponedAnnotation('T', g), function=g)
    elif kind == 'p':
        _, i, d = desc
        o = inspect.Parameter('a', inspect.Parameter.POSITIONAL_OR_KEYWORD, default=d, annotation='T')
    else:
        o = MENAGERIE[desc[1] % len(MENAGERIE)]
    _OBJ[desc] = o
    return o


def obj_line(desc):
    return '.'.join(str(x) for x in desc)


def real_pyeq(req):
    op, a, b = req
    x, y = make_obj(a), make_obj(b)
    try:
        with warnings.catch_warnings():
            # "returns a bool without raising" also when warnings are errors (python -W error, pytest filterwarnings=error):
            # e.g. using NotImplemented in a boolean context is a DeprecationWarning
            warnings.simplefilter('error')
            if op == 'pyeq':
                r = (x == y)
            elif op == 'pyne':
                r = (x != y)
            else:
                try:
                    r = hash(x) == hash(y)
                except TypeError:
                    return ('unhashable',)
    except Exception as e:  # noqa
        return core.canon_exc(e)
    if r is True or r is False:
        return ('ok', r)
    return ('not-a-bool', repr(r))


# ----------------------------------------------------------------------------- C16: cleanup with faults
class Injected(RuntimeError):
    pass


class InjectedValueError(ValueError):
    pass


class Ticker:
    def __init__(self, fault, exc=Injected):
        self.n = 0
        self.fault = fault
        self.exc = exc

    def tick(self):
        k = self.n
        self.n += 1
        if self.fault is not None and k == self.fault:
            raise self.exc('injected at outside call %d' % k)


def make_store_obj(iw, is_, cw, cs, ticker):
    ns = {}
    if cw is not None:
        ns['__wrapped__'] = cw
    if cs is not None:
        ns['__signature__'] = cs

    def __getattribute__(self, name):
        if name in ('__wrapped__', '__signature__'):
            ticker.tick()
        return object.__getattribute__(self, name)
    ns['__getattribute__'] = __getattribute__
    cls = type('Sc', (), ns)
    o = cls()
    if iw is not None:
        object.__setattr__(o, '__wrapped__', iw)
    if is_ is not None:
        object.__setattr__(o, '__signature__', is_)
    return o, cls


def real_cleanup(req):
    _, fault, iw, is_, cw, cs = req
    t = Ticker(fault)
    o, cls = make_store_obj(iw, is_, cw, cs, t)
    raised = False
    try:
        with _autoforwards.cleanup_functools_wrapper(o):
            t.tick()
    except Injected:
        raised = True
    d = object.__getattribute__(o, '__dict__')
    return ('ok', d.get('__wrapped__'), d.get('__signature__'), cls.__dict__.get('__wrapped__'),
            cls.__dict__.get('__signature__'), raised, t.n)


# ----------------------------------------------------------------------------- C18: cache histories
class _Hist:
    def __init__(self, variant):
        valeq = variant.endswith('_eq')      # instances that all compare (and hash) equal: identity must still decide
        variant = variant[:-3] if valeq else variant
        if variant == 'pok':
            class C(object):
                @modifiers.kwoargs('b')
                def m(self, a, b=1):
                    return (self, a, b)
        elif variant == 'pokself':
            # binding consumes the whole selection: the re-binding getter hands the bound method back as it is (D91)
            class C(object):
                @modifiers.posoargs(end='self')
                def m(self, a, b=1):
                    return (self, a, b)
        elif variant == 'pokpos':
            class C(object):
                @modifiers.autokwoargs
                def m(self, a, b=1):
                    return (self, a, b)
        elif variant == 'forger':
            class C(object):
                def inner(self, x, y=2):
                    return (self, x, y)

                @specifiers.forwards_to_method('inner', emulate=True)
                def m(self, a, *args, b=1, **kwargs):
                    return (self, a, b)
        elif variant == 'deco':
            @wrappers.decorator
            def deco(func, *args, b=1, **kwargs):
                return func(*args, **kwargs) + (b,)

            class C(object):
                @deco
                def m(self, a):
                    return (self, a)
        else:
            raise core.HarnessError(variant)
        if valeq:
            class C(C):
                def __eq__(self, other):
                    return type(other) is type(self)

                def __hash__(self):
                    return 1
        self.C = C
        self.inst = {}
        self.wrap = {}
        self.refs = {}
        self.problems = []

    def do(self, op):
        k, _, i = op.partition(':')
        i = int(i) if i else None
        if k == 'new':
            if i not in self.inst:
                o = self.C()
                self.inst[i] = o
                self.refs.setdefault(i, []).append(weakref.ref(o))
        elif k == 'get':
            if i in self.inst:
                w = self.inst[i].m
                w2 = self.inst[i].m
                self.wrap.setdefault(i, []).append(w)
                r = w(5, b=6)
                if r[0] is not self.inst[i] or r[1] != 5 or r[-1] != 6:
                    self.problems.append('wrong-instance: wrapper obtained from instance %d returned %r' % (i, r))
                if w2(5, b=6) != r:
                    self.problems.append('rebind-differs: two bindings of the same method differ')
        elif k == 'call':
            if i in self.inst:
                r = self.inst[i].m(7, b=8)
                if r[0] is not self.inst[i] or r[1] != 7 or r[-1] != 8:
                    self.problems.append('wrong-instance: call on instance %d returned %r' % (i, r))
        elif k == 'dropw':
            self.wrap.pop(i, None)
        elif k == 'dropi':
            self.inst.pop(i, None)
        elif k == 'gc':
            gc.collect()

    def alive(self):
        gc.collect()
        out = []
        for i, rs in self.refs.items():
            if rs and rs[-1]() is not None:
                out.append(i)
        return tuple(sorted(out))


def real_cache(req):
    _, variant, ops = req
    h = _Hist(variant)
    for op in ops:
        h.do(op)
    a = h.alive()
    if h.problems:
        return ('ok', ('problem', h.problems[0]))
    return ('ok', a)


def real_wlist(req):
    """wrappers.wrappers over a real stack: levels outermost first; an int = a sigtools level made with wrapper function #k
    (even: wrappers.decorator, odd: wrapper_decorator), 'W' = an ordinary functools.wraps decorator"""
    _, levels = req
    wf = {}

    def wrapper_fn(k):
        if k not in wf:
            def w(func, *args, **kwargs):
                return func(*args, **kwargs)
            w.__name__ = 'w%d' % k
            wf[k] = (wrappers.decorator if k % 2 == 0 else wrappers.wrapper_decorator)(w)
        return wf[k]

    def plainwrap(fn):
        @functools.wraps(fn)
        def pw(*a, **k):
            return fn(*a, **k)
        return pw

    def f(x):
        return x
    obj = f
    for l in reversed(levels):
        obj = plainwrap(obj) if l == 'W' else wrapper_fn(l)(obj)
    try:
        ws = list(wrappers.wrappers(obj))
    except Exception as e:  # noqa
        return core.canon_exc(e)
    return ('ok', tuple(int(w.__name__[1:]) for w in ws))


OPS = {'pyeq': real_pyeq, 'pyne': real_pyeq, 'hasheq': real_pyeq, 'cleanup': real_cleanup, 'cache': real_cache, 'wlist': real_wlist}


# ----------------------------------------------------------------------------- runtime-only checks (no model counterpart)
def rt_sigcmp(req):
    """C14: str(), bind(), bind_partial() behave as for an inspect.Signature built from the same parameters;
    replace() returns the upgraded type keeping provenance and upgraded annotations unless overridden"""
    _, ps = req
    problems = []
    with warnings.catch_warnings():
        warnings.simplefilter('ignore')
        d = core.D(ps, fn=1, ret=2, uret=('p', 2))
        u = core.mk_sig(d)
        p = core.mk_sig(d, plain=True)
        if str(u) != str(p):
            problems.append('str: %s vs %s' % (u, p))
        names = [q[0] for q in ps if q[1] in ('po', 'pk', 'ko')] + ['zz']
        npos = sum(1 for q in ps if q[1] in ('po', 'pk'))
        for n in range(npos + 2):
            for r in range(len(names) + 1):
                for K in itertools.combinations(names, r):
                    for meth in ('bind', 'bind_partial'):
                        def run(sig):
                            try:
                                ba = getattr(sig, meth)(*range(n), **{k: 1 for k in K})
                                return ('ok', tuple(ba.arguments.items()))
                            except TypeError:
                                return ('typeerror',)
                        a, b = run(u), run(p)
                        if a != b:
                            problems.append('%s(%d, %s): upgraded %s, plain %s on %s' % (meth, n, K, a, b, u))
        r = u.replace(parameters=(q for q in u.parameters.values()))
        if list(r.parameters.values()) != list(u.parameters.values()):
            problems.append('replace-iterator: replace(parameters=<generator over %d parameters>) gives %s; an inspect.Signature '
                            'accepts any iterable' % (len(u.parameters), r))
        r = S.UpgradedSignature((q for q in u.parameters.values()), sources={'+depths': {}})
        if list(r.parameters.values()) != list(u.parameters.values()):
            problems.append('replace-iterator: UpgradedSignature(<generator over %d parameters>) gives %s' % (len(u.parameters), r))
        r = u.replace()
        if type(r) is not S.UpgradedSignature or r.sources is not u.sources or \
                r.upgraded_return_annotation is not u.upgraded_return_annotation:
            problems.append('replace(): type/provenance/upgraded return annotation not kept on %s' % u)
        # replace() is a constructor: whatever is overridden, the receiver stays what it was and the result is another object
        for kw_ in ({}, {'sources': {'+depths': {}}}, {'upgraded_return_annotation': S.EmptyAnnotation},
                    {'sources': {'+depths': {}}, 'upgraded_return_annotation': S.EmptyAnnotation}):
            u2 = core._mk_sig(d)
            before = (dict(u2.sources), u2.upgraded_return_annotation, str(u2), hash(u2))
            r = u2.replace(**kw_)
            if r is u2:
                problems.append('replace-returns-receiver: sig.replace(%s) is sig' % ', '.join(sorted(kw_)))
            after = (dict(u2.sources), u2.upgraded_return_annotation, str(u2), hash(u2))
            if before != after or u2 != core._mk_sig(d):
                problems.append('replace-mutates-receiver: after sig.replace(%s) the receiver changed' % ', '.join(sorted(kw_)))
        r = u.replace(return_annotation=inspect.Signature.empty, upgraded_return_annotation=S.EmptyAnnotation)
        if r.upgraded_return_annotation is not S.EmptyAnnotation:
            problems.append('replace(upgraded_return_annotation=...) not honoured')
        for prm in u.parameters.values():
            q = prm.replace(name=prm.name)
            if type(q) is not S.UpgradedParameter or q.upgraded_annotation is not prm.upgraded_annotation \
                    or q.sources is not prm.sources:
                problems.append('Parameter.replace(): upgraded annotation / provenance not kept on %s' % prm)
            q = prm.replace(upgraded_annotation=S.EmptyAnnotation)
            if q.upgraded_annotation is not S.EmptyAnnotation:
                problems.append('Parameter.replace(upgraded_annotation=...) not honoured')
            # every override keyword on its own: the overridden field takes the given value, every other field
            # (upgraded and inherited ones) keeps its own
            fields = dict(sources=lambda x: x.sources, source_depths=lambda x: x.source_depths,
                          upgraded_annotation=lambda x: x.upgraded_annotation, function=lambda x: x._function,
                          name=lambda x: x.name, kind=lambda x: x.kind, default=lambda x: x.default,
                          annotation=lambda x: x.annotation)
            fresh = dict(sources=['S'], source_depths={'S': 7}, upgraded_annotation=S.EmptyAnnotation, function=rt_sigcmp,
                         name=prm.name + '_', annotation='A')
            # ... and the boundary values an `x or default` shortcut would swallow
            falsy = [('sources', []), ('source_depths', {}), ('default', None), ('default', 0), ('annotation', None),
                     ('annotation', 0), ('annotation', ''), ('function', None)]
            for kw_, val in list(fresh.items()) + falsy:
                if kw_ == 'default' and prm.kind in (prm.VAR_POSITIONAL, prm.VAR_KEYWORD):
                    continue       # inspect refuses defaults on star parameters
                q = prm.replace(**{kw_: val})
                if type(q) is not S.UpgradedParameter:
                    problems.append('Parameter.replace(%s=...) returned a %s' % (kw_, type(q).__name__))
                    continue
                for f_, get in fields.items():
                    want = val if f_ == kw_ else get(prm)
                    if get(q) is not want and get(q) != want:
                        problems.append('replace-field: Parameter.replace(%s=...) left .%s = %r, expected %r (on %s)' % (
                            kw_, f_, get(q), want, prm))
        sfresh = dict(sources={'+depths': {}}, upgraded_return_annotation=S.EmptyAnnotation, return_annotation='R',
                      parameters=list(u.parameters.values())[:1])
        sfields = dict(sources=lambda x: x.sources, upgraded_return_annotation=lambda x: x.upgraded_return_annotation,
                       return_annotation=lambda x: x.return_annotation, parameters=lambda x: list(x.parameters.values()))
        sfalsy = [('sources', {}), ('parameters', []), ('parameters', ()), ('return_annotation', None), ('return_annotation', 0),
                  ('return_annotation', '')]
        for kw_, val in list(sfresh.items()) + sfalsy:
            q = u.replace(**{kw_: val})
            if type(q) is not S.UpgradedSignature:
                problems.append('Signature.replace(%s=...) returned a %s' % (kw_, type(q).__name__))
                continue
            for f_, get in sfields.items():
                want = (list(val) if f_ == 'parameters' else val) if f_ == kw_ else get(u)
                if get(q) is not want and get(q) != want:
                    problems.append('replace-field: Signature.replace(%s=...) left .%s = %r, expected %r (on %s)' % (
                        kw_, f_, get(q), want, u))
        # a mixed list: the signature's own (upgraded) parameters next to one plain inspect.Parameter - what a caller that
        # adds a parameter with inspect's classes passes; the upgraded ones keep provenance and upgraded annotation
        extra = inspect.Parameter('zz_extra', inspect.Parameter.KEYWORD_ONLY, default=None)
        plist = list(u.parameters.values())
        at = next((j for j, q_ in enumerate(plist) if q_.kind == q_.VAR_KEYWORD), len(plist))
        try:
            with warnings.catch_warnings():
                warnings.simplefilter('ignore')
                q = u.replace(parameters=plist[:at] + [extra] + plist[at:])
        except ValueError:
            q = None
        if q is not None:
            for prm in u.parameters.values():
                got_ = q.parameters.get(prm.name)
                if got_ is None or not isinstance(got_, S.UpgradedParameter):
                    problems.append('replace-mixed: replace(parameters=<own parameters + one inspect.Parameter>) returned %r for %s' % (got_, prm.name))
                    break
                if (got_.sources != prm.sources or got_.source_depths != prm.source_depths or
                        got_.upgraded_annotation is not prm.upgraded_annotation and got_.upgraded_annotation != prm.upgraded_annotation
                        or not (got_ == prm)):
                    problems.append('replace-mixed: replace(parameters=<own parameters + one inspect.Parameter>) changed parameter %s: sources %r -> %r, '
                                    'upgraded annotation %r -> %r, equal to the one passed in: %r' % (
                                        prm.name, prm.sources, got_.sources, prm.upgraded_annotation, got_.upgraded_annotation, got_ == prm))
                    break
        # == implies equal hash (and a working dict lookup) also between a signature of a PEP 563 function and its evaluated() copy,
        # and between copies whose raw annotation was replaced; == is reflexive even for a NaN default
        if len(ps) <= 2 and all(q[1] in ('pk', 'ko') for q in ps):
            gl = {}
            names_ = [q[0] for q in ps]
            src_ = 'from __future__ import annotations\ndef f(%s) -> int:\n    pass\n' % ', '.join(
                ('*, ' if q[1] == 'ko' and (k_ == 0 or ps[k_ - 1][1] != 'ko') else '') + '%s: int' % q[0] for k_, q in enumerate(ps))
            try:
                exec(compile(src_, '<c14>', 'exec'), gl)
            except SyntaxError:
                gl = None
            if gl:
                su = sigtools.signature(gl['f'])
                group = [su, su.evaluated(), sigtools.signature(gl['f'])]
                for q in list(su.parameters.values()):
                    group += [q, su.evaluated().parameters[q.name], q.replace(annotation=int), q.replace(annotation='int')]
                for x in group:
                    for y in group:
                        try:
                            e_, n_ = (x == y), (x != y)
                        except Exception as ex:  # noqa
                            problems.append('comparison-raises: %r == %r raised %s' % (x, y, type(ex).__name__))
                            continue
                        if e_ is not (not n_):
                            problems.append('eq-ne: %r vs %r: == %r, != %r' % (x, y, e_, n_))
                        if e_ and hash(x) != hash(y):
                            problems.append('eq-hash: %r == %r (a signature / parameter of a PEP 563 function and a copy) but their hashes differ' % (x, y))
            for dv in ([], {}, [1], {'k': []}):
                pu = S.UpgradedParameter('a', inspect.Parameter.POSITIONAL_OR_KEYWORD, default=dv)
                su1 = S.UpgradedSignature([pu], sources={'+depths': {}})
                su2 = S.UpgradedSignature([S.UpgradedParameter('a', inspect.Parameter.POSITIONAL_OR_KEYWORD, default=type(dv)(dv))], sources={'+depths': {}})
                ip = inspect.Signature([inspect.Parameter('a', inspect.Parameter.POSITIONAL_OR_KEYWORD, default=dv)])
                for x, y in ((su1, su1), (su1, su2), (su1, su1.replace()), (su1, ip), (ip, su1), (pu, pu), (su1, None)):
                    try:
                        e_, n_ = (x == y), (x != y)
                    except Exception as ex:  # noqa
                        problems.append('comparison-raises: comparing signatures / parameters with the unhashable default %r raised %s' % (dv, type(ex).__name__))
                        break
                    if e_ is not (not n_) or (y is not None and e_ is not True):
                        problems.append('eq-unhashable-default: %r == %r gives %r / != gives %r' % (x, y, e_, n_))
            nan = float('nan')
            pn = S.UpgradedParameter('a', inspect.Parameter.POSITIONAL_OR_KEYWORD, default=nan)
            if not (pn == pn) or not (S.UpgradedSignature([pn], sources={'+depths': {}}) == S.UpgradedSignature([pn], sources={'+depths': {}})) \
                    and (inspect.Signature([pn]) == inspect.Signature([pn])):
                problems.append('eq-not-reflexive: a parameter with a NaN default does not equal itself (inspect compares identical objects equal)')
    return ('ok', tuple(problems[:3]))


RT = {'sigcmp': rt_sigcmp}


# ----------------------------------------------------------------------------- C16: faults injected into whole retrievals
def _snapshot(obj, seen=None, depth=0):
    """attributes of obj and of every object reachable through __wrapped__, __signature__ and __dict__
    (identity of values, not deep equality)"""
    if seen is None:
        seen = {}
    if id(obj) in seen or depth > 6:
        return seen
    try:
        d = object.__getattribute__(obj, '__dict__')
    except AttributeError:
        d = None
    snap = None if d is None else tuple(sorted((k, id(v)) for k, v in d.items()))
    seen[id(obj)] = (type(obj).__name__, snap)
    if d is not None:
        for k in ('__wrapped__', '__signature__', 'func', '__func__'):
            if k in d:
                _snapshot(d[k], seen, depth + 1)
    for k in ('__func__', '__self__', 'func'):
        try:
            v = object.__getattribute__(obj, k)
        except Exception:  # noqa
            continue
        if callable(v) or k == '__self__':
            _snapshot(v, seen, depth + 1)
    return seen


def _retrieve_with_fault(obj, k, exc, retrieve):
    """run retrieve(obj) with `exc` raised at the k-th call that crosses into outside code.
    returns (outcome, calls made)"""
    import ast as _ast
    from . import scenarios
    t = Ticker(k, exc)
    orig_sig, orig_src, orig_parse = inspect.signature, inspect.getsource, _ast.parse

    def sig(*a, **kw):
        t.tick()
        return orig_sig(*a, **kw)

    def src(*a, **kw):
        t.tick()
        return orig_src(*a, **kw)

    def parse(*a, **kw):
        t.tick()
        return orig_parse(*a, **kw)
    inspect.signature, inspect.getsource, _ast.parse = sig, src, parse
    scenarios.TICK = t.tick
    try:
        try:
            with warnings.catch_warnings():
                warnings.simplefilter('ignore')
                r = retrieve(obj)
            out = ('ok', str(r))
        except BaseException as e:  # noqa
            out = ('raised', type(e).__name__)
    finally:
        inspect.signature, inspect.getsource, _ast.parse = orig_sig, orig_src, orig_parse
        scenarios.TICK = None
    return out, t.n


def rt_faults(req):
    """every scenario x an exception at each successive outside call, until a run no longer reaches it"""
    from . import scenarios
    _, name, exc_name, how = req
    exc = {'runtime': Injected, 'value': InjectedValueError, 'type': type('InjectedTypeError', (TypeError,), {}),
           'attr': type('InjectedAttributeError', (AttributeError,), {}),
           'kbd': type('InjectedInterrupt', (KeyboardInterrupt,), {})}[exc_name]
    retrieve = {'sigtools': sigtools.signature, 'noauto': lambda o: specifiers.signature(o, auto=False),
                'inspect': inspect.signature}[how]
    problems = []
    crash_points = 0
    k = 0
    while k < 200:
        obj = scenarios.make()[name]
        before = _snapshot(obj)
        out, n = _retrieve_with_fault(obj, k, exc, retrieve)
        after = _snapshot(obj)
        if before != after:
            diff = [(before[i], after.get(i)) for i in before if before[i] != after.get(i)]
            problems.append('attributes-changed: scenario %s (%s), %s injected at outside call %d of %d: %s' % (
                name, how, exc.__name__, k, n, diff[:2]))
        guard = specifiers.as_forged.currently_computing
        if guard:
            problems.append('guard-not-empty: scenario %s (%s), %s injected at outside call %d: %d objects left in the '
                            'as_forged recursion guard' % (name, how, exc.__name__, k, len(guard)))
            guard.clear()
        if n <= k:
            break      # the run completed without reaching the injection point
        crash_points += 1
        k += 1
    return ('ok', tuple(problems[:3]), crash_points)


RT['faults'] = rt_faults


# ----------------------------------------------------------------------------- C17: scheduler
class SharedFunc:
    """the inspected object: every shared access is logged (thread name, kind, attribute, success)"""
    def __init__(self, iw, cw, log):
        object.__setattr__(self, '_log', log)
        if iw is not None:
            object.__getattribute__(self, '__dict__')['__wrapped__'] = iw

    def __getattribute__(self, name):
        if name in ('__wrapped__', '__signature__'):
            log = object.__getattribute__(self, '_log')
            try:
                v = object.__getattribute__(self, name)
            except AttributeError:
                log.append((threading.current_thread().name, 'get', name, False))
                raise
            log.append((threading.current_thread().name, 'get', name, True))
            return v
        return object.__getattribute__(self, name)

    def __delattr__(self, name):
        log = object.__getattribute__(self, '_log')
        try:
            object.__delattr__(self, name)
        except AttributeError:
            log.append((threading.current_thread().name, 'del', name, False))
            raise
        log.append((threading.current_thread().name, 'del', name, True))

    def __setattr__(self, name, value):
        object.__getattribute__(self, '_log').append((threading.current_thread().name, 'set', name, True))
        object.__setattr__(self, name, value)


class LineScheduler:
    """steps worker threads line by line inside sigtools/_autoforwards.py, following a schedule of thread
    indices; when the schedule is exhausted (or names a finished thread) the remaining threads run to completion
    one after the other."""
    def __init__(self, nthreads):
        self.n = nthreads
        self.go = [threading.Semaphore(0) for _ in range(nthreads)]
        self.stopped = [threading.Semaphore(0) for _ in range(nthreads)]
        self.finished = [False] * nthreads
        self.free_run = [False] * nthreads
        self.target = _autoforwards.__file__

    def tracer(self, idx):
        def local(frame, event, arg):
            if event == 'line' and not self.free_run[idx]:
                self.stopped[idx].release()       # tell the scheduler we are about to run a line
                self.go[idx].acquire()            # wait for permission
            return local

        def glob(frame, event, arg):
            if frame.f_code.co_filename == self.target:
                return local
            return None
        return glob

    def run(self, bodies, schedule):
        threads = []
        for i, body in enumerate(bodies):
            def work(i=i, body=body):
                sys.settrace(self.tracer(i))
                try:
                    body()
                finally:
                    sys.settrace(None)
                    self.finished[i] = True
                    self.stopped[i].release()
            th = threading.Thread(target=work, name='T%d' % i)
            threads.append(th)
        for th in threads:
            th.start()
        for i in range(self.n):
            self.stopped[i].acquire()            # every thread parked at its first traced line (or finished)
        for i in schedule:
            if i >= self.n or self.finished[i]:
                continue
            self.go[i].release()
            self.stopped[i].acquire()
        for i in range(self.n):
            if not self.finished[i]:
                self.free_run[i] = True
                self.go[i].release()
                threads[i].join(10)
        for th in threads:
            th.join(10)
        return all(self.finished)


def events_to_model_schedule(events, n):
    """the logged order of shared accesses -> a schedule for Model/Cleanup.lean's World.run.
    One model step per shared access; the silent steps (exitW / exitS with nothing saved) are inserted in front
    of the next access of that thread, and flushed at the end."""
    order = ['getW', 'delW', 'getS', 'delS', 'body', 'exitW', 'exitS']
    pos = [0] * n            # index into `order` of the next model step of each thread
    sched = []

    def advance_to(t, step):
        # skip steps that the model makes silently or that did not happen (del after a failed get)
        while order[pos[t]] != step:
            if order[pos[t]] in ('exitW', 'exitS'):
                sched.append(t)            # silent no-op step in the model
            # delW/delS are not model steps when the preceding get failed (the model jumps over them)
            pos[t] += 1
        sched.append(t)
        pos[t] += 1
    for (tn, kind, attr, ok) in events:
        t = int(tn[1:])
        if kind == 'body':
            advance_to(t, 'body')
        else:
            step = {'get': 'get', 'del': 'del', 'set': 'exit'}[kind] + ('W' if attr == '__wrapped__' else 'S')
            advance_to(t, step)
    for t in range(n):
        while pos[t] < len(order):
            if order[pos[t]] in ('exitW', 'exitS'):
                sched.append(t)
            pos[t] += 1
    return sched


def rt_sched(req):
    """run `with cleanup_functools_wrapper(f): body` in n real threads under a line-granularity schedule;
    return the logged order of shared accesses, what every body saw and the final attributes"""
    _, n, iw, schedule = req
    log = []
    f = SharedFunc(iw, None, log)
    saw = [None] * n

    def mk(i):
        def body():
            with _autoforwards.cleanup_functools_wrapper(f):
                d = object.__getattribute__(f, '__dict__')
                log.append(('T%d' % i, 'body', '__wrapped__', '__wrapped__' in d))
                saw[i] = '__wrapped__' in d
        return body
    ls = LineScheduler(n)
    done = ls.run([mk(i) for i in range(n)], schedule)
    d = object.__getattribute__(f, '__dict__')
    return dict(done=done, events=list(log), saw=saw, final=d.get('__wrapped__'),
                model_schedule=events_to_model_schedule(log, n))


def rt_asforged_threads(req):
    """deterministic: thread A is held inside the as_forged computation while thread B retrieves the same object"""
    from . import scenarios
    _, how_b = req
    obj = scenarios.AsForgedSlow()
    inside, resume = threading.Event(), threading.Event()
    res = {}

    def tick():
        if threading.current_thread().name == 'A':
            inside.set()
            resume.wait(5)
    scenarios.TICK = tick
    try:
        def a():
            try:
                res['A'] = str(inspect.signature(obj))
            except Exception as e:  # noqa
                res['A'] = 'raised ' + type(e).__name__

        def b():
            try:
                with warnings.catch_warnings():
                    warnings.simplefilter('ignore')
                    res['B'] = str(inspect.signature(obj) if how_b == 'inspect' else sigtools.signature(obj))
            except Exception as e:  # noqa
                res['B'] = 'raised ' + type(e).__name__
        ta = threading.Thread(target=a, name='A')
        ta.start()
        inside.wait(5)
        tb = threading.Thread(target=b, name='B')
        tb.start()
        tb.join(5)
        resume.set()
        ta.join(5)
    finally:
        scenarios.TICK = None
        resume.set()
    with warnings.catch_warnings():
        warnings.simplefilter('ignore')
        alone = str(inspect.signature(scenarios.AsForgedSlow()))
    problems = []
    for t in 'AB':
        if res.get(t) != alone:
            problems.append('as_forged-concurrent: thread %s got %s while another thread was computing; alone it gets %s' % (
                t, res.get(t), alone))
    if specifiers.as_forged.currently_computing:
        problems.append('guard-not-empty after concurrent retrieval')
    return ('ok', tuple(problems))


def rt_stress(req):
    """randomized stress with a minimal switch interval: several threads retrieve signatures of shared objects.
    Only the quiescence clause is asserted for functools.wraps functions (their answers are subject to finding D6);
    answers are asserted for the scenarios without a delete/restore window."""
    from . import scenarios
    _, seed, rounds, nthreads = req
    import random
    rng = random.Random(seed)
    objs = scenarios.make()
    names = ['wrapped_fn', 'as_forged', 'method_pok', 'decorated_fn', 'pok_fn', 'declared_emulated', 'plain_wrapper']
    # a forwarding function whose body nests far deeper than the interpreter's stack allows the visitor to follow: what it
    # answers depends on process-wide interpreter settings only (it must not depend on what other threads are doing)
    from . import progs
    deep_mod, deep_fname = progs.load_module(
        'def tgt(a, b=2, *, c=3): return a\ndef deep(first, *args, **kwargs):\n    return tgt(*args, **kwargs) and (%s)\n'
        % ' + '.join(['first'] * 700))
    objs['deep_nested'] = deep_mod.deep
    names.append('deep_nested')
    recursion_limit = sys.getrecursionlimit()
    with warnings.catch_warnings():
        warnings.simplefilter('ignore')
        alone = {n: (str(sigtools.signature(objs[n])), str(inspect.signature(objs[n]))) for n in names}
    before = {n: _snapshot(objs[n]) for n in names}
    wrong = []
    old = sys.getswitchinterval()
    sys.setswitchinterval(1e-6)
    try:
        def work(k):
            r = random.Random('%s/%d' % (seed, k))
            for _ in range(rounds):
                n = r.choice(names)
                which = r.randint(0, 1)
                try:
                    with warnings.catch_warnings():
                        warnings.simplefilter('ignore')
                        got = str(sigtools.signature(objs[n]) if which == 0 else inspect.signature(objs[n]))
                except Exception as e:  # noqa
                    got = 'raised %s' % type(e).__name__
                if got != alone[n][which]:
                    wrong.append((n, which, got))
        ths = [threading.Thread(target=work, args=(k,)) for k in range(nthreads)]
        for t in ths:
            t.start()
        for t in ths:
            t.join(60)
    finally:
        sys.setswitchinterval(old)
    problems = []
    for n in names:
        if _snapshot(objs[n]) != before[n]:
            problems.append('not-restored: after all threads finished, %s does not have the attributes it had' % n)
    window = [w for w in wrong if w[0] in ('wrapped_fn',)]
    other = [w for w in wrong if w[0] not in ('wrapped_fn',)]
    for w in other[:2]:
        problems.append('concurrent-answer: %s via %s gave %s under stress, alone %s' % (
            w[0], ['sigtools.signature', 'inspect.signature'][w[1]], w[2], alone[w[0]][w[1]]))
    if window:
        problems.append('cleanup-window: %d of the retrievals of a functools.wraps function saw it without __wrapped__ '
                        '(e.g. %s instead of %s)' % (len(window), window[0][2], alone['wrapped_fn'][window[0][1]]))
    if specifiers.as_forged.currently_computing:
        problems.append('guard-not-empty after stress')
    if sys.getrecursionlimit() != recursion_limit:
        problems.append('concurrent-answer: after the threads finished the interpreter\'s recursion limit is %d, it was %d: every later '
                        'retrieval of a deeply nested function answers differently' % (sys.getrecursionlimit(), recursion_limit))
        sys.setrecursionlimit(recursion_limit)
    progs.unload(deep_fname)
    return ('ok', tuple(problems))


RT['asforged_threads'] = rt_asforged_threads
RT['stress'] = rt_stress


def rt_window(req):
    """deterministic demonstration of the delete/restore window (finding D6): thread A is held inside the
    `with cleanup_functools_wrapper(f)` body while thread B asks inspect.signature(f)"""
    from . import scenarios
    f = scenarios.make()['wrapped_fn']
    inside, resume = threading.Event(), threading.Event()
    res = {}
    orig = inspect.signature

    def slow_sig(obj, *a, **kw):
        if threading.current_thread().name == 'A' and obj is f and not inside.is_set():
            inside.set()
            resume.wait(5)
        return orig(obj, *a, **kw)
    with warnings.catch_warnings():
        warnings.simplefilter('ignore')
        alone_b = str(orig(f))
        alone_a = str(sigtools.signature(f))
    inspect.signature = slow_sig
    try:
        def a():
            with warnings.catch_warnings():
                warnings.simplefilter('ignore')
                res['A'] = str(sigtools.signature(f))

        def b():
            res['B'] = str(orig(f))
        ta = threading.Thread(target=a, name='A')
        ta.start()
        inside.wait(5)
        tb = threading.Thread(target=b, name='B')
        tb.start()
        tb.join(5)
        resume.set()
        ta.join(5)
    finally:
        inspect.signature = orig
        resume.set()
    problems = []
    if res.get('B') != alone_b:
        problems.append('cleanup-window: inspect.signature(f) in a second thread returned %s while sigtools.signature(f) was '
                        'running in the first (alone: %s): f was temporarily without __wrapped__' % (res.get('B'), alone_b))
    if res.get('A') != alone_a:
        problems.append('concurrent-answer: sigtools.signature(f) returned %s, alone %s' % (res.get('A'), alone_a))
    if not hasattr(f, '__wrapped__'):
        problems.append('not-restored: f lost __wrapped__ for good')
    return ('ok', tuple(problems))


RT['window'] = rt_window


def rt_modorder(req):
    """C18: applying kwoargs, posoargs, autokwoargs-style selections and annotate in any order in which each step is
    admissible yields the same signature and the same call behaviour; annotate after a modifier updates what it advertises"""
    from . import real_mod
    _, ps, Pn, Wn, ann = req
    steps = []
    # each decorator object is made once and used again for every order (repeated use must not change the result)
    if Pn:
        steps.append(('posoargs', modifiers.posoargs(*Pn)))
    for w in Wn:
        steps.append(('kwoargs:' + w, modifiers.kwoargs(w)))
    if ann:
        steps.append(('annotate', modifiers.annotate(**{ann: 42})))
    if (len(ps) + len(Wn)) % 2:
        steps.append(('annotate-return', modifiers.annotate(99)))      # only a return annotation
    outcomes = {}
    problems = []
    # autokwoargs(exceptions=...) kept in a variable and applied to several copies of the function
    dflt = [p[0] for p in ps if p[1] == 'pk' and p[2] is not None]
    if dflt:
        for ex in ([], dflt[:1]):
            auto = modifiers.autokwoargs(exceptions=list(ex))
            seen = []
            for rep in range(3):
                f = core.make_def(tuple(ps), body=real_mod.ret_body(ps) + '  # auto %d' % rep)
                try:
                    with warnings.catch_warnings():
                        warnings.simplefilter('ignore')
                        g = auto(f)
                        sg = str(sigtools.signature(g))
                except ValueError as e:
                    sg = 'ValueError'
                calls = []
                if sg != 'ValueError':
                    for args, kw in _small_calls(ps):
                        try:
                            r = g(*args, **dict(kw))
                            calls.append(tuple(sorted((k, repr(v)) for k, v in r.items())))
                        except TypeError:
                            calls.append('typeerror')
                seen.append((sg, tuple(calls)))
            if len(set(seen)) > 1:
                problems.append('reuse-dependent: autokwoargs(exceptions=%r) applied to identical functions %s gives %s the first time and %s later' % (
                    ex, core.fmt_params(ps), seen[0][0], [x[0] for x in seen[1:]]))
    for order in itertools.permutations(range(len(steps))):
        f = core.make_def(tuple(ps), body=real_mod.ret_body(ps) + '  # fresh %s' % (order,))
        f = type(f)(f.__code__, f.__globals__, f.__name__, f.__defaults__, f.__closure__)
        f.__kwdefaults__ = core.make_def(tuple(ps), body=real_mod.ret_body(ps) + '  # fresh %s' % (order,)).__kwdefaults__
        try:
            with warnings.catch_warnings():
                warnings.simplefilter('ignore')
                g = f
                for i in order:
                    g = steps[i][1](g)
                sig = str(sigtools.signature(g))
                isig = str(inspect.signature(g))
        except ValueError:
            continue       # this order has an inadmissible step
        calls = []
        for args, kw in _small_calls(ps):
            try:
                r = g(*args, **dict(kw))
                calls.append(tuple(sorted((k, repr(v)) for k, v in r.items())))
            except TypeError:
                calls.append('typeerror')
        outcomes.setdefault((sig, isig, tuple(calls)), []).append([steps[i][0] for i in order])
    # autokwoargs applied over another modifier (possibly with nothing left to convert): what it advertises is what it does
    for label, inner_dec in ([('posoargs', modifiers.posoargs(*Pn))] if Pn else []) + [('kwoargs:' + w, modifiers.kwoargs(w)) for w in Wn[:1]]:
        f = core.make_def(tuple(ps), body=real_mod.ret_body(ps) + '  # autoover %s' % label)
        try:
            with warnings.catch_warnings():
                warnings.simplefilter('ignore')
                inner = inner_dec(f)
                g = modifiers.autokwoargs(inner)
                gsig = sigtools.signature(g)
        except ValueError:
            continue
        ponames = {q.name for q in gsig.parameters.values() if q.kind == q.POSITIONAL_ONLY}
        for args, kw in _small_calls(ps):
            if ponames & set(dict(kw)):
                continue      # a keyword naming a positional-only parameter alongside **kwargs: excluded by C12 (version-dependent binder)
            try:
                gsig.bind(*args, **dict(kw))
                acc_ = True
            except TypeError:
                acc_ = False
            try:
                g(*args, **dict(kw))
                ran = 'ok'
            except TypeError:
                ran = 'TypeError'
            except RecursionError:
                ran = 'RecursionError'
            if (ran == 'ok') != acc_ or ran == 'RecursionError':
                problems.append('autokwoargs-over-modifier: autokwoargs over %s on %s advertises %s, which %s the call %s %s, but the call gives %s' % (
                    label, core.fmt_params(ps), gsig, 'accepts' if acc_ else 'rejects', args, dict(kw), ran))
                break
    if len(outcomes) > 1:
        it = list(outcomes.items())
        problems.append('order-dependent: %s: order %s gives %s but order %s gives %s' % (
            core.fmt_params(ps), it[0][1][0], it[0][0][:2], it[1][1][0], it[1][0][:2]))
    for (sig, isig, _), orders in outcomes.items():
        if sig != isig:
            problems.append('inspect-differs: %s vs %s after %s' % (sig, isig, orders[0]))
        if ann and (ann + ': 42') not in sig:
            problems.append('annotate-not-advertised: %s after %s lacks the annotation of %s' % (sig, orders[0], ann))
        if any(x == 'annotate-return' for x in orders[0]) and not sig.endswith('-> 99'):
            problems.append('annotate-not-advertised: %s after %s lacks the return annotation' % (sig, orders[0]))
    return ('ok', tuple(problems[:3]), len(outcomes))


def _small_calls(ps):
    npos = sum(1 for p in ps if p[1] in ('po', 'pk'))
    names = [p[0] for p in ps if p[1] in ('pk', 'ko')]
    for n in range(npos + 1):
        for r in range(min(3, len(names)) + 1):
            for K in itertools.combinations(names, r):
                yield tuple(100 + i for i in range(n)), tuple((k, 200) for k in K)


RT['modorder'] = rt_modorder


def rt_alias(req):
    """C16 (algebra part): merge/embed/mask/forwards/sort_params/apply_params leave their inputs unchanged and the
    result shares no provenance map or list with them"""
    from . import engine as E
    _, inner = req
    op = inner[0]
    ds = {'merge': lambda: list(inner[1]), 'embed': lambda: list(inner[3]), 'mask': lambda: [inner[4]],
          'forwards': lambda: [inner[4], inner[5]]}[op]()
    with warnings.catch_warnings():
        warnings.simplefilter('ignore')
        sigs = [core.mk_sig(d) for d in ds]
        before = [core.canon_sig(s) for s in sigs]
        ids = set()
        for s in sigs:
            ids.add(id(s.sources))
            for v in s.sources.values():
                ids.add(id(v))
        params_before = [[(id(p), core.canon_param(p), id(p.sources)) for p in s.parameters.values()] for s in sigs]
        try:
            if op == 'merge':
                r = signatures.merge(*sigs)
            elif op == 'embed':
                r = signatures.embed(*sigs, use_varargs=bool(inner[1]), use_varkwargs=bool(inner[2]))
            elif op == 'mask':
                fl = inner[3]
                r = signatures.mask(sigs[0], inner[1], *inner[2], hide_args=fl[0], hide_kwargs=fl[1],
                                    hide_varargs=fl[2], hide_varkwargs=fl[3])
            else:
                fl = inner[3]
                r = signatures.forwards(sigs[0], sigs[1], inner[1], *inner[2], hide_args=fl[0], hide_kwargs=fl[1],
                                        use_varargs=fl[2], use_varkwargs=fl[3], partial=fl[4])
        except ValueError:
            r = None
        sp = signatures.sort_params(sigs[0], sources=True)
        ap = signatures.apply_params(sigs[0], *sp)
        ap0 = signatures.apply_params(sigs[0], *signatures.sort_params(sigs[0]))     # the form the documentation shows (no sources)
    problems = []
    after = [core.canon_sig(s) for s in sigs]
    if before != after:
        problems.append('input-mutated: %s changed an input signature: %s -> %s' % (E.line(inner), before, after))
    params_after = [[(id(p), core.canon_param(p), id(p.sources)) for p in s.parameters.values()] for s in sigs]
    if params_before != params_after:
        problems.append('input-mutated: %s changed an input parameter object' % E.line(inner))
    for res, what in ((r, op), (ap, 'apply_params'), (ap0, 'apply_params(s, *sort_params(s))')):
        if res is None:
            continue
        for q in res.parameters.values():
            if id(getattr(q, 'sources', None)) in ids:
                problems.append('shared-param-list: parameter %r of the result of %s holds (as its .sources) a list of an input\'s sources map (%s)' % (
                    q.name, what, E.line(inner)))
                break
    for res, what in ((r, op), (ap, 'apply_params'), (sp, 'sort_params'), (ap0, 'apply_params(s, *sort_params(s))')):
        if res is None:
            continue
        src = res.sources
        if id(src) in ids:
            problems.append('shared-map: the result of %s shares its sources map with an input (%s)' % (what, E.line(inner)))
        for k, v in src.items():
            if id(v) in ids:
                problems.append('shared-list: the result of %s shares sources[%r] with an input (%s)' % (what, k, E.line(inner)))
                break
    # the same operation on signatures RETRIEVED from real functions (signatures.signature builds the parameter objects and
    # the map together): no parameter of the result may hold a list that sits in an input's sources map
    try:
        import types
        with warnings.catch_warnings():
            warnings.simplefilter('ignore')
            fsigs = []
            for d in ds:
                f0 = core.make_def(d['params'])
                f = types.FunctionType(f0.__code__, f0.__globals__, 'f%d' % len(fsigs), f0.__defaults__, f0.__closure__)
                f.__kwdefaults__ = f0.__kwdefaults__
                fsigs.append(signatures.signature(f))
            fids = set()
            for sg in fsigs:
                for v in sg.sources.values():
                    fids.add(id(v))
            try:
                if op == 'merge':
                    r2 = signatures.merge(*fsigs)
                elif op == 'embed':
                    r2 = signatures.embed(*fsigs, use_varargs=bool(inner[1]), use_varkwargs=bool(inner[2]))
                elif op == 'mask':
                    fl = inner[3]
                    r2 = signatures.mask(fsigs[0], inner[1], *inner[2], hide_args=fl[0], hide_kwargs=fl[1],
                                         hide_varargs=fl[2], hide_varkwargs=fl[3])
                else:
                    fl = inner[3]
                    r2 = signatures.forwards(fsigs[0], fsigs[1], inner[1], *inner[2], hide_args=fl[0], hide_kwargs=fl[1],
                                             use_varargs=fl[2], use_varkwargs=fl[3], partial=fl[4])
            except ValueError:
                r2 = None
        if r2 is not None:
            for q in r2.parameters.values():
                if id(getattr(q, 'sources', None)) in fids:
                    problems.append('shared-param-list: parameter %r of the result of %s on signatures retrieved from functions holds (as its '
                                    '.sources) the very list of an input\'s sources map: appending to it changes the input (%s)' % (q.name, op, E.line(inner)))
                    break
    except SyntaxError:
        pass
    return ('ok', tuple(problems[:3]))


RT['alias'] = rt_alias


def rt_handbuilt_nomut(req):
    """C16 on signatures a USER built by hand (UpgradedSignature / UpgradedParameter without provenance, stored as
    __signature__, shared between functions, reached through __wrapped__, used as inputs of the algebra): retrieval and the
    algebra leave them - and the mutable defaults of the constructors they were built with - exactly as they were"""
    import copy
    problems = []

    def snap_sig(sg):
        return (str(sg), copy.deepcopy({k: (list(map(id, v)) if k != '+depths' else {id(a): b for a, b in v.items()})
                                        for k, v in sg.sources.items()}),
                tuple((q.name, list(map(id, q.sources)), {id(a): b for a, b in q.source_depths.items()}, id(q.upgraded_annotation))
                      for q in sg.parameters.values()))

    def ctor_defaults():
        kd = S.UpgradedParameter.__init__.__kwdefaults__ or {}
        return {k: copy.copy(v) for k, v in kd.items() if isinstance(v, (list, dict))}

    def target(x, y=0, **kwargs):
        return (x, y, kwargs)

    def mk_sig():
        return S.UpgradedSignature([S.UpgradedParameter('a', inspect.Parameter.POSITIONAL_OR_KEYWORD),
                                    S.UpgradedParameter('b', inspect.Parameter.POSITIONAL_OR_KEYWORD, default=1)])
    shared = mk_sig()

    def f(*args, **kwargs):
        return None

    def g(*args, **kwargs):
        return None
    f.__signature__ = shared
    g.__signature__ = shared

    @functools.wraps(f)
    def w(*args, **kwargs):
        return f(*args, **kwargs)
    part = functools.partial(target, extra=1)          # a keyword only **kwargs can take: shown as a new keyword-only parameter

    def fwd(*args, **kwargs):
        return part(*args, **kwargs)
    loose = mk_sig()

    # a function whose stored __signature__ carries provenance (modifiers.annotate), reached as a bound method and through a class
    class Annotated(object):
        @modifiers.annotate(a=int)
        def m(self, a, b=1):
            return None

        @modifiers.annotate(x=int)
        def __init__(self, x=0):
            pass
    stored = [Annotated.__dict__['m'].__signature__, Annotated.__dict__['__init__'].__signature__]
    # functions without source (made by exec): inspect.getsource raises OSError inside retrieval
    ns = {}
    exec('def nosrc(x, *args, **kwargs):\n    return target(x, *args, **kwargs)\n', {'target': target}, ns)
    nosrc = ns['nosrc']
    nosrc_kwo = modifiers.kwoargs('x')(nosrc)

    @functools.wraps(nosrc)
    def nosrc_w(*args, **kwargs):
        return nosrc(*args, **kwargs)

    def attrs():
        return tuple(sorted(vars(o)) for o in (nosrc, nosrc_w, f, g, w, fwd))

    def snap_all():
        return (snap_sig(shared), snap_sig(loose), ctor_defaults(), tuple(snap_sig(x) for x in stored), attrs())
    before = snap_all()
    steps = [
        ('sigtools.signature(bound method of an annotate-decorated function)', lambda: sigtools.signature(Annotated().m)),
        ('signatures.signature(bound method of an annotate-decorated function)', lambda: signatures.signature(Annotated().m)),
        ('sigtools.signature(class with an annotate-decorated __init__)', lambda: sigtools.signature(Annotated)),
        ('sigtools.signature(function without source)', lambda: sigtools.signature(nosrc)),
        ('sigtools.signature(kwoargs-decorated function without source)', lambda: sigtools.signature(nosrc_kwo)),
        ('sigtools.signature(functools.wraps wrapper of a function without source)', lambda: sigtools.signature(nosrc_w)),
        ('sigtools.signature(f)', lambda: sigtools.signature(f)),
        ('signatures.signature(g)', lambda: signatures.signature(g)),
        ('sigtools.signature(functools.wraps wrapper of f)', lambda: sigtools.signature(w)),
        ('inspect.signature(w)', lambda: inspect.signature(w)),
        ('signatures.signature(partial(target, extra=1))', lambda: signatures.signature(part)),
        ('sigtools.signature(function forwarding to that partial)', lambda: sigtools.signature(fwd)),
        ('merge(hand-built, hand-built)', lambda: signatures.merge(loose, shared)),
        ('embed(signature(fwd), hand-built)', lambda: signatures.embed(signatures.signature(fwd), loose)),
        ('mask(hand-built, 1)', lambda: signatures.mask(loose, 1)),
        ('forwards(signature(fwd), hand-built)', lambda: signatures.forwards(signatures.signature(fwd), loose)),
    ]
    for label, fn in steps:
        try:
            with warnings.catch_warnings():
                warnings.simplefilter('ignore')
                fn()
        except ValueError:
            pass
        except Exception as e:  # noqa
            problems.append('handbuilt-raises: %s raised %s: %s' % (label, type(e).__name__, e))
        now = snap_all()
        if now != before:
            what = ['the signature stored as __signature__ of two functions', 'a hand-built signature only used as an input',
                    'the mutable default arguments of UpgradedParameter.__init__',
                    'the signature modifiers.annotate stored on the function (its provenance maps)',
                    'the attributes of the functions involved'][[a != b for a, b in zip(now, before)].index(True)]
            problems.append('handbuilt-mutated: %s changed %s: before %r, after %r' % (
                label, what, before[[a != b for a, b in zip(now, before)].index(True)], now[[a != b for a, b in zip(now, before)].index(True)]))
            break
    return ('ok', tuple(problems[:2]), 'probed')


RT['handbuilt_nomut'] = rt_handbuilt_nomut


# ----------------------------------------------------------------------------- C13: wrappers
def _params_src(ps):
    return core.def_source(ps, name='X', body='pass').split('(', 1)[1].rsplit('):', 1)[0]


def rt_wrap(req):
    """C13: wrappers.decorator / wrapper_decorator / Combination are call-transparent; the reported signature
    (sigtools and inspect) accepts only calls that execute; binding removes the first parameter; wrappers() order"""
    from . import progs, oracles as O
    _, kind, own_list, fps, placement = req
    lines = ['import functools', 'from sigtools import wrappers, specifiers, modifiers', 'LOG = []']
    depth = len(own_list)
    # decorated function: records its arguments
    fparams = list(fps)
    falsy = placement == 'method_falsy'
    if falsy:
        placement = 'method'
    if placement in ('method',):
        fparams = [core.P('self', 'pk')] + fparams
    ret = 'return ("f", %s)' % ', '.join(
        ('%s' % p[0]) if p[1] not in ('vp', 'vk') else ('tuple(%s)' % p[0] if p[1] == 'vp' else 'tuple(sorted(%s.items()))' % p[0])
        for p in fparams if p[0] != 'self')
    if ret.endswith(', )'):
        ret = 'return ("f",)'
    for i, own in enumerate(own_list):
        # own parameters of the wrapper: names starting with 'q' are required positional ones (before *args),
        # the others keyword-only with a default
        posown = [n for n in own if n.startswith('q')]
        ownsrc = ', '.join('%s=%d' % (n, 50 + i) for n in own if not n.startswith('q'))
        sig = 'func, ' + ''.join('%s, ' % n for n in posown) + '*args' + (', ' + ownsrc if ownsrc else '') + ', **kwargs'
        body = 'return ("w%d", %s func(*args, **kwargs))' % (i, ''.join('%s, ' % n for n in own))
        deco = {'decorator': '@wrappers.decorator', 'wrapper_decorator': '@wrappers.wrapper_decorator'}[kind]
        lines += [deco, 'def deco%d(%s):' % (i, sig), '    ' + body]
        lines += ['def hand%d(%s):' % (i, sig), '    ' + body]
    fdef = core.def_source(fparams, name='f', body=ret).rstrip('\n').split('\n')
    # a wrapper without parameters of its own can be applied twice in a row: adjacent levels with no own parameters use
    # the SAME decorator object (a logging / timing wrapper stacked on itself)
    level_deco = []
    for i in range(depth):
        if i > 0 and own_list[i] == () and own_list[i - 1] == ():
            level_deco.append(level_deco[-1])
        else:
            level_deco.append(i)
    decos = ['@deco%d' % level_deco[i] for i in range(depth)]
    if placement == 'function_peek':
        # the stack is built one level at a time and every intermediate object is introspected before the next
        # decorator is applied (what interactive use, or a framework registering callbacks, does)
        lines += fdef
        lines += ['import inspect, sigtools as _st']
        for i in reversed(range(depth)):
            lines += ['f = deco%d(f)' % level_deco[i], '_st.signature(f); inspect.signature(f)']
        lines += core.def_source(fparams, name='plain', body=ret).rstrip('\n').split('\n')
        lines += ['target = f']
        hand = 'plain'
        for i in reversed(range(depth)):
            hand = 'functools.partial(hand%d, %s)' % (level_deco[i], hand)
        lines += ['hand = ' + hand]
    elif placement == 'function_forged':
        # the decorated function carries a declared forger of its own (forwards_to_function sets _sigtools__forger on it):
        # the decorator stack must describe itself + that forged signature, exactly as for the plainly defined twin `ref`
        lines += core.def_source(fparams, name='plain', body=ret).rstrip('\n').split('\n')
        lines += decos + ['@specifiers.forwards_to_function(plain)', 'def f(*args, **kwargs):', '    return plain(*args, **kwargs)']
        lines += decos + core.def_source(fparams, name='ref', body=ret).rstrip('\n').split('\n')
        lines += ['target = f']
        hand = 'plain'
        for i in reversed(range(depth)):
            hand = 'functools.partial(hand%d, %s)' % (level_deco[i], hand)
        lines += ['hand = ' + hand]
    elif placement == 'function_wraps':
        # an ordinary functools.wraps decorator sits between the levels of the stack
        lines += ['def plainwrap(fn):', '    @functools.wraps(fn)', '    def pw(*a, **k):', '        return fn(*a, **k)', '    return pw']
        mixed = []
        for dline in decos:
            mixed += [dline, '@plainwrap']
        lines += mixed + fdef
        lines += core.def_source(fparams, name='plain', body=ret).rstrip('\n').split('\n')
        lines += ['target = f']
        hand = 'plain'
        for i in reversed(range(depth)):
            hand = 'functools.partial(hand%d, %s)' % (level_deco[i], hand)
        lines += ['hand = ' + hand]
    elif placement == 'function':
        lines += decos + fdef
        lines += core.def_source(fparams, name='plain', body=ret).rstrip('\n').split('\n')
        lines += ['target = f']
        hand = 'plain'
        for i in reversed(range(depth)):
            hand = 'functools.partial(hand%d, %s)' % (level_deco[i], hand)
        lines += ['hand = ' + hand]
    else:
        lines += ['class C(object):']
        if falsy:
            lines += ['    def __len__(self):', '        return 0']      # an empty container: a falsy receiver
        if placement == 'staticmethod':
            lines += ['    @staticmethod']
        lines += ['    ' + l for l in decos + fdef]
        lines += ['    ' + l for l in core.def_source(fparams, name='plain', body=ret).rstrip('\n').split('\n')]
        lines += ['inst = C()', 'target = inst.f']
        hand = ('inst.plain' if placement == 'method' else 'C.__dict__["plain"]')
        for i in reversed(range(depth)):
            hand = 'functools.partial(hand%d, %s)' % (level_deco[i], hand)
        lines += ['hand = ' + hand]
    src = '\n'.join(lines) + '\n'
    problems = []
    try:
        mod, fname = progs.load_module(src)
    except Exception as e:  # noqa
        return ('ok', ('harness-wrap-source: %s %s\n%s' % (type(e).__name__, e, src),), 'error')
    try:
        with warnings.catch_warnings():
            warnings.simplefilter('ignore')
            sig = sigtools.signature(mod.target)
            isig = inspect.signature(mod.target)
        if str(sig) != str(isig):
            problems.append('inspect-differs: sigtools %s, inspect %s\n%s' % (sig, isig, src))
        if placement == 'function_forged':
            with warnings.catch_warnings():
                warnings.simplefilter('ignore')
                rsig = sigtools.signature(mod.ref)
            if str(rsig) != str(sig):
                problems.append('forged-decorated-differs: the stack over a function with a declared forger reports %s, over its plainly '
                                'defined twin %s\n%s' % (sig, rsig, src))
        R = [(p.name, core.KIND_NAME[p.kind], None if p.default is p.empty else 1) for p in sig.parameters.values()]
        names = [p[0] for p in fps] + [n for own in own_list for n in own] + ['zz']
        inputs = [[(p[0], p[1], p[2]) for p in fps]] + \
                 [[(n, 'pk', None) if n.startswith('q') else (n, 'ko', 1) for n in own] for own in own_list]
        npos = sum(1 for p in fps if p[1] in ('po', 'pk')) + sum(1 for own in own_list for n in own if n.startswith('q'))
        ran = 0
        for n in range(npos + 2):
            for r in range(min(3, len(names)) + 1):
                for K in itertools.combinations(names, r):
                    a = tuple(100 + i for i in range(n))
                    k = {x: 200 + j for j, x in enumerate(K)}

                    def run(fn):
                        try:
                            return ('ok', fn(*a, **k))
                        except TypeError:
                            return ('typeerror',)
                    got, want = run(mod.target), run(mod.hand)
                    ran += 1
                    if got != want:
                        problems.append('not-transparent: called with %s %s the decorated callable gives %s, the hand-written composition %s\n%s' % (
                            a, k, got, want, src))
                        break
                    if O.non_colliding(R, inputs, K) and O.acc(R, n, K) and got == ('typeerror',):
                        problems.append('signature-unsound: %s accepts (%d,%s) but the call raises TypeError\n%s' % (sig, n, K, src))
                        break
        ws = list(wrappers.wrappers(mod.target))
        want_ws = [getattr(mod, 'deco%d' % i).__wrapped__ if hasattr(getattr(mod, 'deco%d' % i), '__wrapped__') else None for i in range(depth)]
        if len(ws) != depth:
            problems.append('wrappers-length: wrappers() lists %d functions for a stack of %d\n%s' % (len(ws), depth, src))
        else:
            for i, w in enumerate(ws):
                nm = getattr(w, '__name__', None)
                if nm != 'deco%d' % level_deco[i]:
                    problems.append('wrappers-order: wrappers() position %d is %r\n%s' % (i, w, src))
                    break
        if placement == 'method':
            try:
                with warnings.catch_warnings():
                    warnings.simplefilter('ignore')
                    usig = sigtools.signature(mod.C.f)
            except Exception as e:  # noqa
                problems.append('unbound-stack-retrieval-raises: sigtools.signature(C.f) raised %s for a stack of %d wrappers.decorator '
                                'wrappers on a method accessed through the class\n%s' % (type(e).__name__, depth, src))
                usig = None
            if usig is not None:
                up = [p.name for p in usig.parameters.values()]
                bp = [p.name for p in sig.parameters.values()]
                # binding removes exactly one parameter, the decorated function's first one (`self`): it is the first
                # of the stack's signature too unless a wrapper puts required positional parameters of its own in front
                npq = sum(1 for own in own_list for n in own if n.startswith('q'))
                if up.count('self') != 1 or [x for x in up if x != 'self'] != bp or up.index('self') != npq:
                    problems.append('bind-removes-first: unbound %s, bound %s\n%s' % (usig, sig, src))
    finally:
        progs.unload(fname)
    return ('ok', tuple(problems[:2]), 'calls:%d' % ran)


def rt_combination(req):
    """C13: wrappers.Combination: result = each function applied in turn to the first argument; its signature is
    sound when the combined functions use parameter names in consistent roles"""
    from . import progs, oracles as O
    flist = req[1]
    firsts = req[2] if len(req) > 2 else ('arg',) * len(flist)     # name of each function's first parameter
    fwd = req[3] if len(req) > 3 else ()             # members that forward their stars to a helper (discovered automatically)
    lines = ['from sigtools import wrappers']
    for i, ps in enumerate(flist):
        full = [core.P(firsts[i], 'pk')] + list(ps)
        if i in fwd:
            lines += core.def_source(full, name='h%d' % i, body='return (%d, %s)' % (i, firsts[i])).rstrip('\n').split('\n')
            lines += ['def c%d(%s, *args, **kwargs):' % (i, firsts[i]), '    return h%d(%s, *args, **kwargs)' % (i, firsts[i])]
        else:
            lines += core.def_source(full, name='c%d' % i, body='return (%d, %s)' % (i, firsts[i])).rstrip('\n').split('\n')
    lines += ['comb = wrappers.Combination(%s)' % ', '.join('c%d' % i for i in range(len(flist)))]
    src = '\n'.join(lines) + '\n'
    mod, fname = progs.load_module(src)
    problems = []
    try:
        with warnings.catch_warnings():
            warnings.simplefilter('ignore')
            try:
                sig = sigtools.signature(mod.comb)
            except ValueError:
                return ('ok', (), 'incompatible')
        R = [(p.name, core.KIND_NAME[p.kind], None if p.default is p.empty else 1) for p in sig.parameters.values()]
        # Combination.__call__(self, arg, *args, **kwargs) itself is one of the combined signatures
        ins = [[('arg', 'pk', None), ('args', 'vp', None), ('kwargs', 'vk', None)]] + \
              [[(firsts[i], 'pk', None)] + [(p[0], p[1], p[2]) for p in ps] for i, ps in enumerate(flist)]
        rc = O.role_cons(ins[1:]) and len(set(firsts)) == 1
        ran = 0
        for n, K in O.shapes_for(ins + [R], foreign=('zz',), maxk=3):
            a = tuple(100 + i for i in range(n))
            k = {x: 200 for x in K}

            def hand(arg, *args, **kwargs):        # the composition, written by hand
                for i in range(len(flist)):
                    arg = getattr(mod, 'c%d' % i)(arg, *args, **kwargs)
                return arg
            try:
                want = ('ok', hand(*a, **k))
            except TypeError:
                want = ('typeerror',)
            try:
                got = ('ok', mod.comb(*a, **k))
            except TypeError:
                got = ('typeerror',)
            ran += 1
            if got != want:
                problems.append('combination-not-transparent: %s %s gives %s, hand-written %s\n%s' % (a, k, got, want, src))
                break
            if rc and O.non_colliding(R, ins, K) and O.acc(R, n, K) and got == ('typeerror',):
                problems.append('combination-signature-unsound: %s accepts (%d,%s) but the call raises TypeError\n%s' % (sig, n, K, src))
                break
    finally:
        progs.unload(fname)
    return ('ok', tuple(problems[:2]), 'calls:%d' % ran)


RT['wrap'] = rt_wrap
RT['combination'] = rt_combination


# ----------------------------------------------------------------------------- C11: postponed annotations
class _AObj:
    def __init__(self, tag):
        self.tag = tag

    def __repr__(self):
        return 'AObj%r' % (self.tag,)


def _annot_func(ps, anns, ret, future, glob, name='fn'):
    """def name(<ps with annotations spelled T<k>>) -> T<ret>, compiled with/without the future flag in `glob`"""
    import __future__
    parts = []
    prev = None
    for p, a in zip(ps, anns):
        n, k, d = p[0], p[1], p[2]
        if prev == 'po' and k != 'po':
            parts.append('/')
        if k == 'ko' and prev not in ('vp', 'ko'):
            parts.append('*')
        t = {'vp': '*', 'vk': '**'}.get(k, '') + n
        if a is not None:
            t += ': T%d' % a
        if d is not None:
            t += '=%d' % d
        parts.append(t)
        prev = k
    if prev == 'po':
        parts.append('/')
    src = 'def %s(%s)%s:\n    return None\n' % (name, ', '.join(parts), (' -> T%d' % ret) if ret is not None else '')
    flags = __future__.annotations.compiler_flag if future else 0
    code = compile(src, '<annot>', 'exec', flags, dont_inherit=True)
    exec(code, glob)
    return glob[name]


def rt_annot(req):
    import random
    from . import streams as ST
    _, seed = req
    rng = random.Random(seed)
    problems = []
    shared = rng.random() < 0.4
    same_spelling_diff_obj = (not shared) and rng.random() < 0.5
    op = rng.choice(['merge', 'merge', 'embed', 'forwards', 'mask', 'kwoargs', 'partial', 'annotate'])
    k = 2 if op in ('merge', 'embed', 'forwards') else 1
    if op == 'merge':
        descs = ST._align(rng, list('abc'), 2, 3)
        pss = [d['params'] for d in descs]
    elif op in ('embed', 'forwards'):
        pss = [core.rand_sig(rng, list('ab'), 2, p_star=1.0), core.rand_sig(rng, list('xy'), 2)]
    else:
        pss = [core.rand_sig(rng, list('abc'), 3)]
    globs, table = [], []
    base = {}
    for i in range(k):
        g = base if shared else {}
        for t in (1, 2, 3):
            if 'T%d' % t not in g:
                # distinct objects per function unless globals are shared
                g['T%d' % t] = _AObj((0 if shared else i, t))
        globs.append(g)
    # spellings: the same names in every function (only then can equal spellings denote different objects, D10),
    # or disjoint names per function (then the object tells which function's globals resolved it)
    same_spelling = shared or rng.random() < 0.5
    off = [0 if same_spelling else 3 * i for i in range(k)]
    for i in range(k):
        for t in (1, 2, 3):
            globs[i].setdefault('T%d' % (t + off[i]), _AObj((0 if shared else i, t + off[i])))
    anns = [[rng.choice([None, 1 + off[i], 2 + off[i]]) for _ in ps] for i, ps in enumerate(pss)]
    rets = [rng.choice([None, 3 + off[i]]) for i, _ in enumerate(pss)]
    marker = _AObj('verbatim')

    def build(future):
        fs = []
        for i in range(k):
            g = dict(globs[i])
            fs.append(_annot_func(pss[i], anns[i], rets[i], future, g, name='fn%d' % i))
        return fs

    def compute(fs):
        with warnings.catch_warnings():
            warnings.simplefilter('ignore')
            sigs = [sigtools.signature(f) for f in fs]
            if op == 'merge':
                return signatures.merge(*sigs)
            if op == 'embed':
                return signatures.embed(*sigs)
            if op == 'forwards':
                return signatures.forwards(sigs[0], sigs[1])
            if op == 'mask':
                return signatures.mask(sigs[0], 1 if any(p[1] in ('po', 'pk') for p in pss[0]) else 0)
            if op == 'kwoargs':
                pk = [p[0] for p in pss[0] if p[1] == 'pk']
                if not pk:
                    return sigs[0]
                return sigtools.signature(modifiers.kwoargs(pk[-1])(fs[0]))
            if op == 'partial':
                pk = [p[0] for p in pss[0] if p[1] in ('pk', 'ko')]
                return sigtools.signature(functools.partial(fs[0], **({pk[-1]: 5} if pk else {})))
            if op == 'annotate':
                nm = [p[0] for p in pss[0]]
                if not nm:
                    return sigs[0]
                r = sigtools.signature(modifiers.annotate(**{nm[0]: marker})(fs[0]))
                if r.parameters[nm[0]].annotation is not marker or r.parameters[nm[0]].upgraded_annotation.source_value() is not marker:
                    problems.append('annotate-not-verbatim: %s' % r)
                return r
    try:
        post = compute(build(True))
        eager = compute(build(False))
    except ValueError:
        return ('ok', (), 'raises')
    # (a) every annotation resolves to an object of the defining function's globals
    allowed = {}
    for i in range(k):
        for p, a in zip(pss[i], anns[i]):
            if a is not None:
                allowed.setdefault(p[0], []).append(globs[i]['T%d' % a])
    pe = post.evaluated()
    for name, p in post.parameters.items():
        ua = p.upgraded_annotation
        try:
            v = ua.source_value()
        except Exception as e:  # noqa
            problems.append('source_value-raises: %s: %s %s' % (name, type(e).__name__, e))
            continue
        if v is inspect.Parameter.empty:
            continue
        if op == 'annotate' and isinstance(v, _AObj) and v.tag == 'verbatim':
            continue
        # positional parameters of a merge may carry the annotation of the parameter merged into them
        cand = allowed.get(name) or [o for lst in allowed.values() for o in lst]
        if not any(v is o for o in cand):
            problems.append('wrong-context: annotation of %s resolves to %r, not an object of its defining globals (%s) in %s' % (
                name, v, cand, post))
        if pe.parameters[name].annotation is not v:
            problems.append('evaluated-differs: evaluated() gives %r for %s, source_value() %r' % (pe.parameters[name].annotation, name, v))
    # (b) twins
    ee = eager.evaluated()
    a = [(n, q.kind, q.annotation) for n, q in pe.parameters.items()]
    b = [(n, q.kind, q.annotation) for n, q in ee.parameters.items()]
    if len(a) != len(b) or any(x[0] != y[0] or x[1] != y[1] or (x[2] is not y[2]) for x, y in zip(a, b)) \
            or (pe.return_annotation is not ee.return_annotation):
        if op in ('merge', 'embed', 'forwards') and not shared:
            problems.append('postponed-spelling-conciliation: merging functions from different globals: postponed gives %s, eager twins give %s '
                            '(annotations are conciliated by comparing their spellings)' % (pe, ee))
        else:
            problems.append('twin-differs: %s on postponed functions evaluates to %s, on eager twins to %s' % (op, pe, ee))
    return ('ok', tuple(problems[:2]), op)


RT['annot'] = rt_annot


# ----------------------------------------------------------------------------- C17: one preemption at every sigtools line
import os as _os

_SIGTOOLS_DIR = _os.path.dirname(_os.path.abspath(sigtools.__file__)) + _os.sep
_TESTS_DIR = _os.path.join(_SIGTOOLS_DIR, 'tests') + _os.sep


def _in_sigtools(fn):
    fn = _os.path.abspath(fn)
    return fn.startswith(_SIGTOOLS_DIR) and not fn.startswith(_TESTS_DIR)


def _make_emulated_cgi():
    def make(kind, *, strict=False):
        return ('table', kind, strict)

    class Table(object):
        @specifiers.forwards_to_function(make, emulate=True)
        def __class_getitem__(cls, *args, **kwargs):
            return (cls.__name__,) + make(*args, **kwargs)
    return Table


def _make_emulated_new():
    def make(kind, *, strict=False):
        return ('obj', kind, strict)

    class Obj(object):
        @specifiers.forwards_to_function(make, emulate=True)
        def __new__(cls, *args, **kwargs):
            make(*args, **kwargs)
            return object.__new__(cls)
    return Obj


class _Service(object):
    @modifiers.kwoargs('verbose')
    def run(self, job, priority=0, verbose=False):
        return (job, priority, verbose)

    @modifiers.posoargs('self', 'job')
    def pos(self, job, priority=0):
        return (job, priority)

    @modifiers.autokwoargs
    def auto(self, job, priority=0):
        return (job, priority)


class _Published(object):
    """a method re-published under a second name with one more modifier: both descriptors are class attributes, both wrap the
    same function, and both are read on the same instance"""
    def f(self, job, priority=0, verbose=False):
        return (job, priority, verbose)
    base = modifiers.kwoargs('verbose')(f)
    both = modifiers.kwoargs('priority')(base)
    del f


class _EqualService(object):
    """value objects: distinct instances that compare (and hash) equal"""
    def __init__(self, tag):
        self.tag = tag

    def __eq__(self, other):
        return isinstance(other, _EqualService)

    def __hash__(self):
        return 11

    @modifiers.kwoargs('verbose')
    def who(self, job=0, verbose=False):
        return self.tag


def _make_annotated():
    class K(object):
        @modifiers.annotate(a=int)
        def m(self, a, b=1):
            return (a, b)

        @modifiers.annotate(str, b=int)
        @modifiers.kwoargs('b')
        def n(self, a, b=1):
            return (a, b)
    return K


def _prov(sig):
    src = getattr(sig, 'sources', None) or {}
    return (str(sig), tuple(sorted((k, len(v)) for k, v in src.items())))


def _probe_calls(sig, fn, cases):
    out = []
    for args, kwargs in cases:
        try:
            sig.bind(*args, **kwargs)
            a = True
        except TypeError:
            a = False
        try:
            fn(*args, **kwargs)
            c = True
        except (TypeError, AttributeError):
            c = False
        out.append((a, c))
    return tuple(out)


_PCASES = [((1,), {}), ((1, 2), {}), ((1, 2, 3), {}), ((), {}), ((1,), {'verbose': True}), ((1,), {'priority': 2}),
           ((1,), {'strict': True}), ((1,), {'zz': 1}), ((), {'kind': 1}), ((), {'job': 1})]


def _preempt_scenarios():
    """name -> (make shared state, what each thread does with it, B's extra (drop references), windowed?)"""
    from . import scenarios

    def both(get):
        def do(st):
            o = get(st)
            with warnings.catch_warnings():
                warnings.simplefilter('ignore')
                return (str(inspect.signature(o)), str(sigtools.signature(o)))
        return do

    def both_calls(get):
        def do(st):
            o = get(st)
            with warnings.catch_warnings():
                warnings.simplefilter('ignore')
                isig = inspect.signature(o)
                ssig = sigtools.signature(o)
            return (str(isig), str(ssig), _probe_calls(isig, o, _PCASES))
        return do

    def svc_state():
        svc = _Service()
        return {'svc': svc, 'held': [svc.run, svc.pos, svc.auto]}

    def drop_held(st):
        del st['held'][:]
        gc.collect()
    sc = {
        # modifiers-wrapped methods: B holds the cached bound wrappers, retrieves too, then lets go of them and collects
        'pok_method_kwo': (svc_state, both_calls(lambda st: st['svc'].run), drop_held),
        'pok_method_pos': (svc_state, both_calls(lambda st: st['svc'].pos), drop_held),
        'pok_method_auto': (svc_state, both_calls(lambda st: st['svc'].auto), drop_held),
        # two distinct but EQUAL instances: each thread calls the method of both; the one it gets must run on the instance asked
        'pok_equal_instances': (lambda: {'a': _EqualService('a'), 'b': _EqualService('b')},
                                (lambda st: (st['a'].who(1), str(sigtools.signature(st['a'].who)), gc.collect() and None,
                                             st['b'].who(1), str(sigtools.signature(st['b'].who)))), None),
        # two stacked descriptors over one function, both published: each thread reads both names on the shared instance
        'pok_published_stack': (lambda: {'o': _Published()},
                                (lambda st: (both_calls(lambda s_: s_['o'].base)(st), gc.collect() and None,
                                             both_calls(lambda s_: s_['o'].both)(st))), None),
        # objects using as_forged: first-ever access of an emulate=True special method from two threads
        'emulated_class_getitem': (lambda: {'cls': _make_emulated_cgi()}, both_calls(lambda st: st['cls'].__class_getitem__), None),
        'emulated_new': (lambda: {'cls': _make_emulated_new()}, both(lambda st: st['cls']), None),
        # related objects: the function that carries an annotate-stored signature, its bound method and the class-level
        # access, parameters AND provenance (what one retrieval returns must not depend on the others having happened)
        'annotate_related': (lambda: (lambda K: {'cls': K, 'o': K()})(_make_annotated()),
                             (lambda st: tuple(_prov(f(getattr(x, nm))) for nm in ('m', 'n') for x in (st['cls'], st['o'], st['cls'])
                                               for f in (sigtools.signature, inspect.signature))), None),
    }
    for n in ('as_forged', 'decorated_fn', 'wdecorated_fn', 'declared_emulated', 'method_decorated', 'method_pok', 'pok_fn',
              'user_forged', 'method_fwd', 'instance_signature', 'plain_wrapper', 'method_auto', 'partial', 'declared'):
        sc[n] = ((lambda n=n: {'o': scenarios.make()[n]}), both(lambda st: st['o']), None)
    # functools.wraps functions: their answers are subject to the delete/restore window (finding D6)
    for n in ('wrapped_fn', 'wrapped_twice'):
        sc[n] = ((lambda n=n: {'o': scenarios.make()[n]}), both(lambda st: st['o']), None)
    return sc


PREEMPT_SCENARIOS = ('annotate_related', 'pok_method_kwo', 'pok_method_pos', 'pok_method_auto', 'pok_published_stack', 'pok_equal_instances', 'emulated_class_getitem', 'emulated_new', 'as_forged',
                     'decorated_fn', 'wdecorated_fn', 'declared_emulated', 'method_decorated', 'method_pok', 'pok_fn', 'user_forged',
                     'method_fwd', 'instance_signature', 'plain_wrapper', 'method_auto', 'partial', 'declared', 'wrapped_fn',
                     'wrapped_twice')


def rt_preempt(req):
    """thread A runs a retrieval under sys.settrace and is parked exactly once, before the k-th line it executes inside
    sigtools code, for every k in the slice; while it is parked thread B runs its whole retrieval on the same shared
    object (and drops what it held, and collects); then A resumes.  Every hand-over is an Event handshake.  Both must
    obtain what a lone caller obtains, and afterwards the shared object must still answer the same."""
    _, name, lo, hi, stride = req
    make, do, b_extra = _preempt_scenarios()[name]
    windowed = name in ('wrapped_fn', 'wrapped_twice', 'instance_signature', 'annotate_related')    # have __wrapped__ / __signature__ to delete and restore
    try:
        expected = do(make())
    except Exception as e:  # noqa
        return ('ok', ('preempt-alone-raises: scenario %s raises %s when run alone' % (name, type(e).__name__),), 'error')
    problems, window = [], 0
    explored = 0
    k = lo
    while k < hi:
        st = make()
        reached, resume = threading.Event(), threading.Event()
        out = {}
        count = [0]

        def local_tracer(frame, event, arg):
            if event == 'line':
                count[0] += 1
                if count[0] == k:
                    reached.set()
                    resume.wait(30)
            return local_tracer

        def global_tracer(frame, event, arg):
            if event == 'call' and _in_sigtools(frame.f_code.co_filename):
                return local_tracer
            return None

        def thread_a():
            sys.settrace(global_tracer)
            try:
                res = ('ok', do(st))
            except BaseException as e:  # noqa
                res = ('raised', type(e).__name__, str(e)[:200])
            finally:
                sys.settrace(None)
            out['a'] = res
            reached.set()

        def thread_b():
            reached.wait(30)
            try:
                out['b'] = ('ok', do(st))
                if b_extra:
                    b_extra(st)
            except BaseException as e:  # noqa
                out['b'] = ('raised', type(e).__name__, str(e)[:200])
            finally:
                resume.set()
        ta, tb = threading.Thread(target=thread_a, name='A'), threading.Thread(target=thread_b, name='B')
        ta.start(); tb.start()
        ta.join(60); tb.join(60)
        if ta.is_alive() or tb.is_alive():
            problems.append('preempt-stuck: scenario %s, A parked before its sigtools line #%d: threads did not finish' % (name, k))
            break
        if count[0] < k:
            break           # the retrieval has fewer traced lines than k: every preemption point is explored
        explored += 1
        for t in 'ab':
            if out.get(t) != ('ok', expected):
                if windowed and out.get(t, ('',))[0] == 'ok':
                    window += 1
                else:
                    problems.append('concurrent-answer: scenario %s, thread A parked before its sigtools line #%d while thread B retrieves: '
                                    'thread %s got %s, alone it gets %s' % (name, k, t.upper(), out.get(t), expected))
        try:
            after = do(st)
        except BaseException as e:  # noqa
            after = ('raised', type(e).__name__)
        if after != expected:
            problems.append('not-restored: scenario %s after the schedule with A parked at line #%d: the shared object answers %s, before %s' % (
                name, k, after, expected))
        if specifiers.as_forged.currently_computing:
            problems.append('guard-not-empty after the schedule (scenario %s, line #%d)' % (name, k))
        if len(problems) >= 3:
            break
        k += stride
    if window:
        problems.append('cleanup-window: %d of the schedules of a functools.wraps function saw it without __wrapped__ (scenario %s)' % (window, name))
    return ('ok', tuple(problems[:3]), 'explored:%d' % explored)


RT['preempt'] = rt_preempt


# ----------------------------------------------------------------------------- C18: a forger that cannot answer yet
def rt_lateattr(req):
    """the attribute a forwards_to_method declaration names is assigned only after the first retrieval: later retrievals
    must equal those on a twin that had it from the start, every accepted call must execute, and the instance must be
    reclaimed once dropped"""
    _, variant = req

    def egg(a, b=2):
        return ('egg', a, b)
    if variant == 'as_forged':
        class A(object):
            __signature__ = specifiers.as_forged

            @specifiers.forwards_to_method('egg')
            def __call__(self, c, *args, **kwargs):
                return self.egg(*args, **kwargs)
        get = lambda i: i      # noqa
    else:
        class A(object):
            @specifiers.forwards_to_method('egg', emulate=(variant == 'emulate'))
            def m(self, c, *args, **kwargs):
                return self.egg(*args, **kwargs)
        get = lambda i: i.m    # noqa
    problems = []

    def retrieve(i):
        out = []
        for fn in (inspect.signature, sigtools.signature):
            try:
                with warnings.catch_warnings():
                    warnings.simplefilter('ignore')
                    out.append(str(fn(get(i))))
            except Exception as e:  # noqa
                out.append('raised ' + type(e).__name__)
        return tuple(out)
    late = A()
    first = retrieve(late)           # the forger cannot answer yet
    late.egg = egg
    twin = A()
    twin.egg = egg
    want = retrieve(twin)
    got = [retrieve(late) for _ in range(2)]
    if any(g != want for g in got):
        problems.append('history-dependent: after a retrieval made before %s.egg was assigned (which gave %s), retrievals give %s; '
                        'on a twin that had egg from the start %s (variant %s)' % (type(late).__name__, first, got, want, variant))
    if not want[0].startswith('raised'):
        # inspect only knows the declaration when it is emulated (as_forged); otherwise the claim is about sigtools.signature
        with warnings.catch_warnings():
            warnings.simplefilter('ignore')
            sig = (sigtools.signature if variant == 'plain' else inspect.signature)(get(late))
        for a, c in _probe_calls(sig, get(late), [((1,), {}), ((1, 2), {}), ((1, 2, 3), {}), ((1, 2, 3, 4), {}), ((1,), {'b': 1}), ((), {})]):
            if a and not c:
                problems.append('signature-unsound: the reported signature %s accepts a call that raises TypeError (variant %s)' % (sig, variant))
                break
        del sig
    ref = weakref.ref(late)
    del late
    gc.collect()
    if ref() is not None:
        problems.append('retained: the instance is still alive after the caller dropped it (variant %s, first retrieval made before egg was assigned)' % variant)
    if specifiers.as_forged.currently_computing:
        problems.append('guard-not-empty after the history (variant %s)' % variant)
        specifiers.as_forged.currently_computing.clear()
    return ('ok', tuple(problems[:3]), 'lateattr')


RT['lateattr'] = rt_lateattr


def rt_truth_history(req):
    """an as_forged callable whose truth value changes with its history (a container that is empty, filled, drained): every
    retrieval - inspect.signature and sigtools.signature, interleaved with calls - reports the instance's signature, never its
    class's, and two instances do not answer for each other"""
    problems = []

    def store(item, *, priority=0):
        return ('stored', item, priority)

    class Queue(object):
        __signature__ = specifiers.as_forged

        def __init__(self, limit=10):
            self.items = []

        def __len__(self):
            return len(self.items)

        @specifiers.forwards_to_function(store)
        def __call__(self, *args, **kwargs):
            self.items.append(args)
            return store(*args, **kwargs)

        def drain(self):
            del self.items[:]

    class Flagged(Queue):
        def __bool__(self):
            return False
    for cls in (Queue, Flagged):
        q, other = cls(), cls()
        with warnings.catch_warnings():
            warnings.simplefilter('ignore')
            other('x')
            want = str(sigtools.signature(other))
            ctor = str(inspect.signature(cls))
        if want == ctor:
            problems.append('harness: instance and constructor signatures coincide')
        for history in itertools.product(('inspect', 'sigtools', 'call', 'drain'), repeat=3):
            q.drain()
            for step, op in enumerate(history):
                if op == 'call':
                    q(1, priority=2)
                    continue
                if op == 'drain':
                    q.drain()
                    continue
                with warnings.catch_warnings():
                    warnings.simplefilter('ignore')
                    got = str((inspect.signature if op == 'inspect' else sigtools.signature)(q))
                if got != want:
                    problems.append('truth-value-changes-answer: %s.signature of a %s instance holding %d items (%s) after the history %s reports %s; '
                                    'the same instance non-empty is %s and %s is what the class takes' % (
                                        op, cls.__name__, len(q), 'falsy' if not q else 'truthy', history[:step + 1], got, want, ctor))
                    break
            if problems:
                break
    # a method published twice (one more modifier the second time): what one name gives does not depend on whether the
    # object obtained through the other name is still referenced
    def answers(o, name):
        m = getattr(o, name)
        with warnings.catch_warnings():
            warnings.simplefilter('ignore')
            return (str(inspect.signature(m)), str(sigtools.signature(m)))
    fresh = {n: answers(_Published(), n) for n in ('base', 'both')}
    for first, second in (('base', 'both'), ('both', 'base')):
        o = _Published()
        held = getattr(o, first)          # kept, as a registered callback would be
        got = answers(o, second)
        if got != fresh[second]:
            problems.append('held-sibling-changes-answer: with o.%s still referenced, o.%s is reported as %s; on a fresh instance %s' % (
                first, second, got, fresh[second]))
        del held
    return ('ok', tuple(problems[:2]), 'probed')


RT['truth_history'] = rt_truth_history


def rt_receiver_modifiers(req):
    """methods whose modifiers name the receiver (spelled `self` or otherwise): in every admissible order of the stack the class-level
    object and the bound one advertise the same parameters (the bound one without the receiver) and behave accordingly - the receiver
    and `a` are refused by name, `c` by position - and looking the method up on an instance does not change what the class-level
    object accepts"""
    problems = []
    K, P, A, N = modifiers.kwoargs, modifiers.posoargs, modifiers.autokwoargs, modifiers.annotate
    for recv in ('self', 'this'):
        stacks = {
            'poso': [lambda f: P(recv)(f)],
            'poso2': [lambda f: P(recv, 'a')(f)],
            'kwo+poso2': [lambda f: P(recv, 'a')(f), lambda f: K('c')(f)],
            'kwo+poso2+annotate': [lambda f: P(recv, 'a')(f), lambda f: K('c')(f), lambda f: N(b=int)(f)],
            'auto+poso': [lambda f: P(recv)(f), lambda f: A(f)],
        }
        for sname, steps in stacks.items():
            seen = {}
            for order in itertools.permutations(range(len(steps))):
                ns = {}
                exec('def m(%s, a, b=2, c=3):\n    return (a, b, c)\n' % recv, ns)
                f = ns['m']
                label = '%s(%s) in order %s' % (sname, recv, order)
                try:
                    with warnings.catch_warnings():
                        warnings.simplefilter('ignore')
                        for i in order:
                            f = steps[i](f)
                except ValueError:
                    continue                    # this order is not admissible (the first step alone is refused)
                cls = type('C', (object,), {'m': f})
                o = cls()

                def refused_by_name(fn, **kw):
                    try:
                        fn(**kw)
                    except TypeError:
                        return True
                    return False
                before = refused_by_name(cls.m, **{recv: o, 'a': 1})
                try:
                    with warnings.catch_warnings():
                        warnings.simplefilter('ignore')
                        bound = o.m
                        bsig = str(sigtools.signature(bound))
                        csig = str(sigtools.signature(cls.m))
                        r1 = bound(1)
                except Exception as e:  # noqa
                    problems.append('receiver-bound-raises: %s: looking the method up on an instance / calling it raises %s: %s' % (
                        label, type(e).__name__, e))
                    continue
                after = refused_by_name(cls.m, **{recv: o, 'a': 1})
                if not before or not after:
                    problems.append('receiver-by-name: %s: C.m(%s=obj, a=1) is %s before and %s after the method was looked up on an '
                                    'instance; %s is positional-only in %s' % (label, recv, 'refused' if before else 'ACCEPTED',
                                                                               'refused' if after else 'ACCEPTED', recv, csig))
                facts = (bsig, r1, refused_by_name(bound, a=1), refused_by_name(lambda: bound(1, 2, 3)))
                seen[order] = facts
                if recv in bsig.split('(')[1]:
                    problems.append('receiver-kept: %s: the bound method advertises %s' % (label, bsig))
            if len(set(seen.values())) > 1:
                problems.append('order-dependent: %s(%s): the admissible orders disagree: %s' % (sname, recv, seen))
    return ('ok', tuple(problems[:3]), 'probed')


RT['receiver_modifiers'] = rt_receiver_modifiers


_D39_SRC = '''%s
class K:
    def __init__(self, a: int, b: str = 'x') -> None: pass
class L:
    def __call__(self, a: int) -> int: return a
def f(a: int) -> int: return a
'''


def rt_class_annotations(req):
    """deterministic probe (finding D39): signatures retrieved for classes and callable instances carry no upgraded
    annotations, so evaluated() loses the annotations that sigtools.signature itself reports"""
    from . import progs
    problems = []
    for future in ('', 'from __future__ import annotations'):
        mod, fname = progs.load_module(_D39_SRC % future)
        try:
            with warnings.catch_warnings():
                warnings.simplefilter('ignore')
                for name, obj, want in (('class K', mod.K, "(a: int, b: str = 'x') -> None"), ('instance L()', mod.L(), '(a: int) -> int'),
                                        ('function f', mod.f, '(a: int) -> int')):
                    got = str(sigtools.signature(obj).evaluated())
                    if got != want:
                        problems.append('class-annotations-lost: sigtools.signature(%s).evaluated() = %s, the annotations denote %s (%s)' % (
                            name, got, want, future or 'eager module'))
        finally:
            progs.unload(fname)
    return ('ok', tuple(problems[:1]), 'probed')


RT['class_annotations'] = rt_class_annotations


_D47_SRC = '''
from sigtools import modifiers
def inner(p, q=1): pass
@modifiers.annotate(x=int)
def w(x, *args, **kwargs): return inner(*args, **kwargs)
@modifiers.annotate(float, x=int)
def w_ret(x, *args, **kwargs): return inner(*args, **kwargs)
@modifiers.annotate(x=int)
def plain(x, y=2): pass
'''


def rt_annotate_discovery(req):
    """deterministic probe (finding D47): values given to modifiers.annotate must be reported through automatic discovery too"""
    from . import progs
    mod, fname = progs.load_module(_D47_SRC)
    problems = []
    try:
        with warnings.catch_warnings():
            warnings.simplefilter('ignore')
            for name, want_x, want_ret in (('w', int, inspect.Signature.empty), ('w_ret', int, float), ('plain', int, inspect.Signature.empty)):
                sg = sigtools.signature(getattr(mod, name)).evaluated()
                got_x = sg.parameters['x'].annotation
                if got_x is not want_x or sg.return_annotation is not want_ret:
                    problems.append('annotate-lost-in-discovery: sigtools.signature(%s) = %s: the annotations given to modifiers.annotate '
                                    '(x=%r, return %r) are not reported once the forwarding is discovered' % (name, sg, want_x, want_ret))
    finally:
        progs.unload(fname)
    return ('ok', tuple(problems[:1]), 'probed')


RT['annotate_discovery'] = rt_annotate_discovery


_NONE_SRC = '''%s
from sigtools import modifiers, signatures
def g(a: int, *args, **kwargs) -> None: pass
def h(b: str = 'x') -> None: pass
@modifiers.annotate(None, a=int)
def an(a, b=1): pass
'''


def rt_none_annotation(req):
    """`None` is an annotation like any other: `-> None` evaluates to None for eager and postponed twins alike, through
    evaluated() of retrieved and combined signatures, and annotate(None, ...) reports it"""
    from . import progs
    out = {}
    problems = []
    for future in ('', 'from __future__ import annotations'):
        mod, fname = progs.load_module(_NONE_SRC % future)
        try:
            with warnings.catch_warnings():
                warnings.simplefilter('ignore')
                sg, sh = sigtools.signature(mod.g), sigtools.signature(mod.h)
                vals = {
                    'signature': sg.evaluated().return_annotation,
                    'mask': signatures.mask(sg, 1).evaluated().return_annotation,
                    'forwards': signatures.forwards(sg, sh).evaluated().return_annotation,
                    'embed': signatures.embed(sg, sh).evaluated().return_annotation,
                    'merge': signatures.merge(sg, sg).evaluated().return_annotation,
                    'annotate': sigtools.signature(mod.an).evaluated().return_annotation,
                    'annotate-raw': sigtools.signature(mod.an).return_annotation,
                }
            out[future] = vals
            for k_, v_ in vals.items():
                if v_ is not None:
                    problems.append('none-annotation: %s of a function annotated `-> None` (%s) reports the return annotation %r' % (
                        k_, future or 'eager module', v_))
        finally:
            progs.unload(fname)
    return ('ok', tuple(problems[:2]), 'probed')


RT['none_annotation'] = rt_none_annotation


_ANNOTATE_BOUND_SRC = '''%s
from sigtools import modifiers
class R(object): pass
class A(object): pass
MARK = object()
class C(object):
    @modifiers.annotate('R', a='A')
    def m(self, a, b=1): pass
    @modifiers.annotate(MARK, a=MARK)
    def n(self, a, b=1): pass
    @modifiers.kwoargs('b')
    @modifiers.annotate('R', a='A')
    def k(self, a, b=1): pass
class Init(object):
    @modifiers.annotate(a='A')
    def __init__(self, a): pass
'''


def rt_annotate_bound(req):
    """values given to modifiers.annotate are reported verbatim - a string stays that string, an object that object - also
    through the bound method, a stacked modifier, a class, and mask / merge / embed of those, eager and postponed alike"""
    from . import progs
    problems = []
    for future in ('', 'from __future__ import annotations'):
        mod, fname = progs.load_module(_ANNOTATE_BOUND_SRC % future)
        try:
            inst = mod.C()
            cases = [('C.m', mod.C.m, 'R', 'A'), ('C().m', inst.m, 'R', 'A'), ('C().n', inst.n, mod.MARK, mod.MARK),
                     ('C().k', inst.k, 'R', 'A'), ('Init', mod.Init, None, 'A')]
            for label, obj, ret, ann in cases:
                for how in ('signature', 'mask', 'merge', 'embed'):
                    try:
                        with warnings.catch_warnings():
                            warnings.simplefilter('ignore')
                            sg = sigtools.signature(obj)
                            if how == 'mask':
                                sg = signatures.mask(sg, 0)
                            elif how == 'merge':
                                sg = signatures.merge(sg, sg)
                            elif how == 'embed':
                                sg = signatures.embed(sigtools.signature(lambda *args, **kwargs: None), sg)
                            ev = sg.evaluated()
                    except Exception as e:  # noqa
                        problems.append('annotate-verbatim-raises: %s of %s (%s): %s: %s' % (how, label, future or 'eager', type(e).__name__, e))
                        continue
                    got_a = ev.parameters['a'].annotation
                    got_r = None if ev.return_annotation is ev.empty else ev.return_annotation
                    if how == 'embed':
                        ret = None          # the return annotation of an embedding is the outer signature's
                    if got_a is not ann and got_a != ann or (ret is not None and (got_r is not ret and got_r != ret)):
                        problems.append('annotate-verbatim: %s of %s (%s module): annotate was given a=%r, return %r; evaluated() reports a=%r, '
                                        'return %r' % (how, label, future or 'eager', ann, ret, got_a, got_r))
        finally:
            progs.unload(fname)
    return ('ok', tuple(problems[:2]), 'probed')


RT['annotate_bound'] = rt_annotate_bound


_WRAPCHAIN_DECO = """%s
import functools
class Flag(object):
    where = 'deco'
class Report(object):
    where = 'deco'
def deco(fn):
    # keeps its own annotations: only the identifying attributes are copied
    @functools.wraps(fn, assigned=('__module__', '__name__', '__qualname__', '__doc__'))
    def wrapper(flag: Flag, *args, **kwargs) -> Report:
        return fn(*args, **kwargs)
    return wrapper
def deco_hand(fn):
    def wrapper(flag: Flag, *args, **kwargs) -> Report:
        return fn(*args, **kwargs)
    wrapper.__wrapped__ = fn
    return wrapper
"""
_WRAPCHAIN_LIB = """%s
class Flag(object):
    where = 'lib'
class Item(object):
    where = 'lib'
def fetch(item: Item, n: Flag = None) -> Item:
    return item
"""


def rt_wrapped_annotations(req):
    """a wrapper that declares __wrapped__ but has annotations of its own, written in another module than the wrapped function:
    each annotation is evaluated in the module where it was written (the wrapper's for the wrapper's own parameters and return
    annotation, the wrapped function's for the parameters discovery brings in), eager and postponed twins agree"""
    from . import progs
    problems = []
    seen = {}
    for dfut in ('', 'from __future__ import annotations'):
        for lfut in ('', 'from __future__ import annotations'):
            dmod, dname = progs.load_module(_WRAPCHAIN_DECO % dfut)
            lmod, lname = progs.load_module(_WRAPCHAIN_LIB % lfut)
            try:
                for mk in ('deco', 'deco_hand'):
                    w = getattr(dmod, mk)(lmod.fetch)
                    try:
                        with warnings.catch_warnings():
                            warnings.simplefilter('ignore')
                            sig = sigtools.signature(w)
                            ev = sig.evaluated()
                            got = {n: q.annotation for n, q in ev.parameters.items() if q.annotation is not q.empty}
                            got['return'] = ev.return_annotation
                            up = {n: q.upgraded_annotation.source_value() for n, q in sig.parameters.items()
                                  if q.annotation is not q.empty}
                    except Exception as e:  # noqa
                        problems.append('wrapped-annotations-raise: %s over a function of another module (wrapper module %s, function module %s): '
                                        '%s: %s' % (mk, dfut or 'eager', lfut or 'eager', type(e).__name__, e))
                        continue
                    want = {'flag': dmod.Flag, 'item': lmod.Item, 'n': lmod.Flag, 'return': dmod.Report}
                    for n, v in want.items():
                        if n in got and got[n] is not v:
                            problems.append('wrapped-annotations: %s: annotation of %r evaluates to %r (%s), written in module %s where it '
                                            'means %r (wrapper module %s, function module %s); parameters %s' % (
                                                mk, n, got[n], getattr(got[n], 'where', '?'), 'deco' if v.where == 'deco' else 'lib', v,
                                                dfut or 'eager', lfut or 'eager', sig))
                        if n in up and up[n] is not v:
                            problems.append('wrapped-annotations: %s: upgraded annotation of %r has source_value %r, expected %r' % (mk, n, up[n], v))
                    seen[(dfut, lfut, mk)] = sorted(got)
            finally:
                progs.unload(dname)
                progs.unload(lname)
    if len(set(map(tuple, seen.values()))) > 1:
        problems.append('wrapped-annotations-modes-differ: annotated names per compilation mode %r' % (seen,))
    return ('ok', tuple(problems[:3]), 'probed')


RT['wrapped_annotations'] = rt_wrapped_annotations


_WRAPS_DECO = """%s
import functools
class Item(object):
    where = 'deco'
def deco(fn):
    @functools.wraps(fn)
    def wrapper(*args, **kwargs):
        return fn(*args, **kwargs)
    return wrapper
def deco_x(fn):
    @functools.wraps(fn)
    def wrapper(extra, *args, **kwargs):
        return fn(*args, **kwargs)
    return wrapper
"""
_WRAPS_LIB = """%s
class Item(object):
    where = 'lib'
def fetch(item: Item, n: int = 0) -> Item:
    return item
def make_holder(deco):
    class Holder(object):
        @deco
        def fetch(self, item: Item, n: int = 0) -> Item:
            return item
    return Holder
"""


def rt_wraps_crossmodule(req):
    """an ordinary functools.wraps decorator defined in one module, applied to an annotated function of another: the
    annotations (functools.wraps copies them) denote what they denote in the module of the function that was decorated,
    whichever of the two modules uses `from __future__ import annotations`"""
    from . import progs
    problems = []
    for dfut in ('', 'from __future__ import annotations'):
        for lfut in ('', 'from __future__ import annotations'):
            dmod, dname = progs.load_module(_WRAPS_DECO % dfut)
            lmod, lname = progs.load_module(_WRAPS_LIB % lfut)
            try:
                for mk in ('deco', 'deco_x', 'deco:method'):
                    if mk.endswith(':method'):
                        w = lmod.make_holder(dmod.deco)().fetch        # the bound method of a decorated method
                    else:
                        w = getattr(dmod, mk)(lmod.fetch)
                    for auto in (False, True):
                        label = '%s, signature(auto=%s), decorator module %s, function module %s' % (
                            mk, auto, dfut and 'postponed' or 'eager', lfut and 'postponed' or 'eager')
                        key = 'wraps-copied-annotations-under-discovery' if auto else 'wraps-annotations-plain'     # auto: finding D59
                        try:
                            with warnings.catch_warnings():
                                warnings.simplefilter('ignore')
                                ev = specifiers.signature(w, auto=auto).evaluated()
                        except Exception as e:  # noqa
                            problems.append('%s: evaluated() raises %s: %s (%s)' % (key, type(e).__name__, e, label))
                            continue
                        got = {n: q.annotation for n, q in ev.parameters.items() if q.annotation is not q.empty}
                        got['return'] = ev.return_annotation
                        want = {'item': lmod.Item, 'n': int, 'return': lmod.Item}
                        bad = {n: got.get(n) for n in want if got.get(n) is not want[n]}
                        if bad:
                            problems.append('%s: evaluated() reports %r, expected the objects of the decorated function\'s module (%s)' % (
                                key, bad, label))
            finally:
                progs.unload(dname)
                progs.unload(lname)
    # one line per class of failure
    out, seen = [], set()
    for p_ in problems:
        k_ = p_.split(':')[0]
        if k_ not in seen:
            seen.add(k_)
            out.append(p_)
    return ('ok', tuple(out), 'probed')


RT['wraps_crossmodule'] = rt_wraps_crossmodule


# ----------------------------------------------------------------------------- C18: re-decoration after use
def _redeco_class(scenario):
    if scenario == 'pos_self_a':
        class C(object):
            @modifiers.posoargs('self', 'a')
            def m(self, a, b=2):
                return (a, b)
    elif scenario == 'pos_self':
        class C(object):
            @modifiers.posoargs('self')
            def m(self, a, b=2):
                return (a, b)
    elif scenario == 'kwo_b':
        class C(object):
            @modifiers.kwoargs('b')
            def m(self, a, b=2):
                return (a, b)
    elif scenario == 'kwo_over_end':
        class C(object):
            @modifiers.kwoargs('c')
            @modifiers.posoargs(end='a')
            def m(self, a, b=2, c=3):
                return (a, b, c)
    else:
        class C(object):
            @modifiers.autokwoargs
            def m(self, a, b=2):
                return (a, b)
    return C


def _redeco_outcome(C, redeco):
    """re-decorate the class attribute, then: signatures through class and instance, and a few real calls"""
    try:
        with warnings.catch_warnings():
            warnings.simplefilter('ignore')
            cur = C.__dict__['m']
            if redeco == 'annotate':
                C.m = modifiers.annotate(b=int)(cur)
            elif redeco == 'annotate_ret':
                C.m = modifiers.annotate(99)(cur)
            elif redeco == 'kwoargs':
                C.m = modifiers.kwoargs('b')(cur)
            inst = C()
            out = [str(sigtools.signature(inst.m)), str(inspect.signature(inst.m)), str(sigtools.signature(C.__dict__['m']))]
            for a, k in (((1,), {}), ((1, 5), {}), ((1,), {'b': 5}), ((), {'a': 1}), ((1, 5, 6), {}), ((), {})):
                try:
                    out.append(repr(inst.m(*a, **k)))
                except TypeError:
                    out.append('TypeError')
                except RecursionError:
                    out.append('RecursionError')
    except ValueError as e:
        return ('ValueError', str(e)[:60])
    return tuple(out)


def rt_redecorate(req):
    """histories of {retrieve, bind on instance 1 / 2, call} followed by a re-decoration give what the re-decoration gives on a
    class nobody has touched yet"""
    _, scenario, history, redeco = req
    want = _redeco_outcome(_redeco_class(scenario), redeco)
    C = _redeco_class(scenario)
    insts = [C(), C()]
    held = []
    with warnings.catch_warnings():
        warnings.simplefilter('ignore')
        for op in history:
            try:
                if op == 'sig':
                    sigtools.signature(C.__dict__['m']); inspect.signature(C.m)
                elif op in ('bind1', 'bind2'):
                    held.append(getattr(insts[int(op[-1]) - 1], 'm'))
                elif op == 'call':
                    insts[0].m(1)
                elif op == 'sigb':
                    sigtools.signature(insts[0].m)
            except Exception as e:  # noqa
                return ('ok', ('history-raises: %s during history %s of scenario %s raised %s' % (op, history, scenario, type(e).__name__),), 'raised')
    got = _redeco_outcome(C, redeco)
    problems = []
    if got != want:
        problems.append('history-dependent: scenario %s, after the history %s the re-decoration %r gives %s; on an untouched class it gives %s' % (
            scenario, list(history), redeco, got[:3], want[:3]))
    return ('ok', tuple(problems), 'redecorate')


RT['redecorate'] = rt_redecorate


def rt_wrap_identity(req):
    """(1) a decorated method bound to one of two EQUAL instances runs on that instance, also while the other's bound wrapper is
    still referenced; (2) Combination(deco(Combination(f, g)), h) is the composition written by hand: the decorator runs"""
    problems = []
    for kind in ('decorator', 'wrapper_decorator'):
        dec = getattr(wrappers, kind)

        @dec
        def tag(func, *args, suffix='', **kwargs):
            return ('tag', func(*args, **kwargs), suffix)

        class Item(object):
            def __init__(self, name):
                self.name = name

            def __eq__(self, other):
                return isinstance(other, Item)

            def __hash__(self):
                return 7

            @tag
            def describe(self, x=0):
                return (self.name, x)
        a, b = Item('a'), Item('b')
        held = a.describe                       # kept, as a registered callback would be
        for inst in (b, a, b):
            got = inst.describe(1, suffix='s')
            want = ('tag', (inst.name, 1), 's')
            if got != want:
                problems.append('wrong-instance: %s-decorated method looked up on instance %r returned %r, the hand-written composition gives %r '
                                '(another, equal, instance has its bound wrapper still referenced)' % (kind, inst.name, got, want))
                break
        del held

        @dec
        def limit(func, arg, *args, limit=10, **kwargs):
            return min(func(arg, *args, **kwargs), limit)

        def f(arg, step=1):
            return arg + step

        def g(arg, step=1):
            return arg * 2

        def h(arg, step=1):
            return arg - step
        inner = wrappers.Combination(f, g)
        comb = wrappers.Combination(limit(inner), h)
        for a_, k_ in (((60,), {}), ((60,), {'step': 5}), ((1,), {}), ((60,), {'limit': 100})):
            try:
                want = h(min(g(f(a_[0], **{x: v for x, v in k_.items() if x != 'limit'}), **{x: v for x, v in k_.items() if x != 'limit'}),
                             k_.get('limit', 10)), **{x: v for x, v in k_.items() if x != 'limit'})
            except TypeError:
                want = 'TypeError'
            try:
                got = comb(*a_, **k_)
            except TypeError:
                got = 'TypeError'
            if got != want and 'limit' not in k_:
                problems.append('combination-not-transparent: Combination(%s(Combination(f, g)), h)%r %r returns %r, the composition written by hand %r' % (
                    kind, a_, k_, got, want))
                break
    return ('ok', tuple(problems[:2]), 'probed')


RT['wrap_identity'] = rt_wrap_identity


def rt_wrap_faults(req):
    """C13 off the happy path: (1) ONE exception raised inside a signature computation of a decorated object leaves nothing behind -
    the next inspect.signature / sigtools.signature of the same object is what a fresh twin gives; (2) when a decorator's own
    parameter is named like a parameter of the decorated function the combination cannot be expressed: whatever IS reported (a
    ValueError reports nothing) only accepts calls that execute"""
    from sigtools import _signatures as _S
    problems = []

    def build():
        @wrappers.decorator
        def tagged(func, tag, *args, **kwargs):
            return (tag, func(*args, **kwargs))

        @wrappers.wrapper_decorator
        def counted(func, *args, count=1, **kwargs):
            return (count, func(*args, **kwargs))

        def add(x, y):
            return x + y
        return {'decorator': tagged(add), 'wrapper_decorator': counted(add), 'stacked': tagged(counted(add))}
    twins, objs = build(), build()
    for name, obj in objs.items():
        with warnings.catch_warnings():
            warnings.simplefilter('ignore')
            want = (str(inspect.signature(twins[name])), str(sigtools.signature(twins[name])))
        real = _S.signature
        state = {'n': 0}

        class Boom(Exception):
            pass

        def faulty(o):
            state['n'] += 1
            if state['n'] == 1:
                raise Boom()
            return real(o)
        for how, fn in (('inspect.signature', inspect.signature), ('sigtools.signature', sigtools.signature)):
            state['n'] = 0
            _S.signature = faulty
            try:
                with warnings.catch_warnings():
                    warnings.simplefilter('ignore')
                    try:
                        fn(obj)
                    except Boom:
                        pass
                    except Exception:  # noqa
                        pass
            finally:
                _S.signature = real
            with warnings.catch_warnings():
                warnings.simplefilter('ignore')
                try:
                    got = (str(inspect.signature(obj)), str(sigtools.signature(obj)))
                except Exception as e:  # noqa
                    got = ('raised ' + type(e).__name__,) * 2
            if got != want:
                problems.append('fault-leaves-trace: after one exception inside %s of a %s object, (inspect, sigtools) report %s; a fresh twin %s' % (
                    how, name, got, want))
                break
    if specifiers.as_forged.currently_computing:
        problems.append('fault-leaves-trace: the as_forged guard still holds %d object(s)' % len(specifiers.as_forged.currently_computing))
    # (2) inexpressible combinations
    @wrappers.wrapper_decorator
    def w_x(func, x, *args, **kwargs):
        return func(x, *args, **kwargs)

    @wrappers.wrapper_decorator(1)
    def w_first(func, first, *args, **kwargs):
        return func(first, *args, **kwargs)

    def mk_xy():
        def f_xy(x, y=10):
            return (x, y)
        return f_xy

    def mk_none():
        def f_none():
            return ()
        return f_none
    for label, obj in (('w_x over f(x, y=10)', w_x(mk_xy())), ('w_x twice', w_x(w_x(mk_xy()))), ('wrapper_decorator(1) over f()', w_first(mk_none()))):
        for how, fn in (('inspect.signature', inspect.signature), ('sigtools.signature', sigtools.signature)):
            try:
                with warnings.catch_warnings():
                    warnings.simplefilter('ignore')
                    sig = fn(obj)
            except ValueError:
                continue                 # nothing is reported
            except Exception as e:  # noqa
                problems.append('inexpressible-raises: %s of %s raises %s (a ValueError is what says "cannot be expressed")' % (how, label, type(e).__name__))
                continue
            for a, k in (((1,), {}), ((), {'x': 7}), ((1, 2), {}), ((), {}), ((1,), {'y': 2})):
                try:
                    sig.bind(*a, **k)
                except TypeError:
                    continue
                try:
                    obj(*a, **k)
                except TypeError as e:
                    problems.append('inexpressible-unsound: %s of %s reports %s, which accepts %r %r; the call raises TypeError: %s' % (
                        how, label, sig, a, k, e))
                    break
    return ('ok', tuple(problems[:3]), 'probed')


RT['wrap_faults'] = rt_wrap_faults


def rt_eq_symmetry(req):
    """== / != between returned signatures of objects of different kinds that carry the same data (a function, a callable
    instance, a class, a bound method, a partial object, copies made with replace()): never raise, are bool, symmetric, consistent
    with each other and with hash - also against the plain inspect counterparts"""
    problems = []

    def fn(a, *, k='x') -> int:
        return 1

    class Inst(object):
        def __call__(self, a, *, k='x') -> int:
            return 1

    class Cls(object):
        def __init__(self, a, *, k='x') -> int:     # noqa
            pass

    def fn3(z, a, *, k='x') -> int:
        return 1

    def noret(a, *, k='x'):
        return 1
    objs = {'function': fn, 'callable instance': Inst(), 'class': Cls, 'bound __call__': Inst().__call__,
            'partial': functools.partial(fn3, 0), 'function without return annotation': noret}
    sigs = {}
    with warnings.catch_warnings():
        warnings.simplefilter('ignore')
        for n, o in objs.items():
            sigs['sigtools(%s)' % n] = sigtools.signature(o)
            sigs['inspect(%s)' % n] = inspect.signature(o)
        base = sigs['sigtools(function)']
        sigs['replace(upgraded_return_annotation=Empty)'] = base.replace(upgraded_return_annotation=S.EmptyAnnotation)
        sigs['replace()'] = base.replace()
        sigs['evaluated()'] = base.evaluated()
    names = list(sigs)
    for i, x in enumerate(names):
        for y in names[i:]:
            a, b = sigs[x], sigs[y]
            try:
                e1, e2, n1, n2 = (a == b), (b == a), (a != b), (b != a)
            except Exception as ex:  # noqa
                problems.append('comparison-raises: %s vs %s: %s' % (x, y, type(ex).__name__))
                continue
            if not all(isinstance(v, bool) for v in (e1, e2, n1, n2)):
                problems.append('comparison-not-bool: %s vs %s: %r' % (x, y, (e1, e2, n1, n2)))
            elif e1 != e2 or n1 != n2 or e1 == n1:
                problems.append('eq-asymmetric: %s == %s is %s, the other way round %s; != gives %s / %s' % (x, y, e1, e2, n1, n2))
            elif e1:
                try:
                    if hash(a) != hash(b):
                        problems.append('eq-hash: %s == %s but their hashes differ' % (x, y))
                except TypeError:
                    pass
    return ('ok', tuple(problems[:3]), 'probed')


RT['eq_symmetry'] = rt_eq_symmetry


def rt_window_resolution(req):
    """the delete/restore window (finding D6) is closed again by the time discovery runs user code to resolve the callee:
    thread A is parked inside a property read during resolution; thread B then sees the function with its __wrapped__"""
    from . import scenarios
    f = scenarios.resolving_wrapped
    inside, resume = threading.Event(), threading.Event()
    res = {}

    def tick():
        if threading.current_thread().name == 'A' and not inside.is_set():
            inside.set()
            resume.wait(5)
    with warnings.catch_warnings():
        warnings.simplefilter('ignore')
        alone = (str(inspect.signature(f)), str(sigtools.signature(f, auto=False)))
    scenarios.TICK = tick
    try:
        def a():
            try:
                with warnings.catch_warnings():
                    warnings.simplefilter('ignore')
                    res['A'] = str(sigtools.signature(f))
            except Exception as e:  # noqa
                res['A'] = 'raised ' + type(e).__name__

        def b():
            try:
                with warnings.catch_warnings():
                    warnings.simplefilter('ignore')
                    res['B'] = (hasattr(f, '__wrapped__'), str(inspect.signature(f)), str(sigtools.signature(f, auto=False)))
            except Exception as e:  # noqa
                res['B'] = 'raised ' + type(e).__name__
        ta = threading.Thread(target=a, name='A')
        ta.start()
        reached = inside.wait(5)
        tb = threading.Thread(target=b, name='B')
        tb.start()
        tb.join(5)
        resume.set()
        ta.join(5)
    finally:
        scenarios.TICK = None
        resume.set()
    problems = []
    if not reached:
        problems.append('window-resolution-harness: thread A never reached the property')
    elif res.get('B') != (True,) + alone:
        problems.append('window-during-resolution: while another thread is resolving the callee of a functools.wraps function (inside user code), '
                        'this thread sees (has __wrapped__, inspect.signature, signature(auto=False)) = %s; alone %s' % (res.get('B'), (True,) + alone))
    if not hasattr(f, '__wrapped__'):
        problems.append('not-restored: f lost __wrapped__ for good')
    return ('ok', tuple(problems))


RT['window_resolution'] = rt_window_resolution
