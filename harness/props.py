"""harness/props.py — per-property configuration of the checks.

For each property: which correspondence streams run (quick / thorough), under which projection
the real code and the Lean model are compared, and which executable oracle looks for a concrete
failing input on the real code.  Theorem lists live in lean/theorems.json.
"""

# (stream, kwargs, number of chunks)
def S_(name, nc=16, **kw):
    return (name, kw, nc)


PROPS = {
    'C03': dict(
        title='mask: exact residual signature',
        proj='proj_shape_errclass', oracle='c03',
        quick=[S_('bind'), S_('mask0'), S_('maskflags_exh'), S_('maskflags', count=40000)],
        thorough=[S_('bind'), S_('mask0'), S_('maskflags_exh'), S_('maskflags', count=600000), S_('maskp')],
        runtime_part="CPython's argument binder (validated by stream `bind`), the validating inspect.Signature constructor",
        level_text='Theorems about the Lean model of _mask/mask (all signatures, all n, all name lists, no size bound) accepted by the Lean kernel; '
                   'the model is tied to /repo on every run by an exhaustive-on-small-universes differential correspondence (U({a,b,c},3) x n x all name tuples; all 16 flag combinations on U({a,b},2)).',
        level_note="Trusted: Lean kernel (axioms per theorem in the evidence), the hand-written model as far as the correspondence agrees, the model of CPython's binder (validated against real calls), the Python harness.",
    ),
}
