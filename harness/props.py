"""harness/props.py — per-property configuration of the checks.

For each property: which correspondence streams run (quick / thorough), under which projection
the real code and the Lean model are compared, and which executable oracle looks for a concrete
failing input on the real code.  Theorem lists live in lean/theorems.json.
"""


def S_(name, nc=16, **kw):
    return (name, kw, nc)


BINDER = "CPython's argument binder (a 20-line model, validated against real calls by stream `bind` on every run)"
CTOR = 'the validating inspect.Signature constructor (modelled by `validate`, compared on every request)'
NOTE = ("Trusted: Lean 4.33 kernel (axioms per theorem are listed in the evidence; only propext, Classical.choice, Quot.sound are "
        "accepted); the hand-written model, as far as the differential correspondence agrees with /repo; the Python harness. "
        "Modelled, not verified: ")

PROPS = {
    'C01': dict(
        title='merge soundness', proj='proj_shape', oracle='c01',
        quick=[S_('probes', nc=1, items=('eq_defaults',)), S_('homonym_rand', count=20000), S_('bind'), S_('merge_pairs'), S_('merge_pairs_stars'), S_('merge_rand', count=20000), S_('merge_roles', count=20000)],
        thorough=[S_('probes', nc=1, items=('eq_defaults',)), S_('homonym_rand', count=300000), S_('bind'), S_('merge_pairs'), S_('merge_pairs_stars'), S_('merge_rand', count=300000, maxnamed=4),
                  S_('merge_roles', count=300000)],
        runtime_part=BINDER,
        level_text='Soundness of merge for every number of inputs is a theorem about the Lean model of _Merger._merge / merge '
                   '(induction over the fold with bucket invariants); the model is tied to /repo on every run by a differential '
                   'correspondence that is exhaustive on all pairs of the 220-signature universe and sampled on 3-4-ary tuples.',
        level_note=NOTE + BINDER + '; ' + CTOR + '.',
    ),
    'C02': dict(
        title='embed', proj='proj_shape', oracle='c02',
        quick=[S_('probes', nc=1, items=('eq_defaults', 'plain_sequence')), S_('homonym_rand', count=20000), S_('bind'), S_('embed_small'), S_('embed_pairs'), S_('embed_rand', count=20000)],
        thorough=[S_('probes', nc=1, items=('eq_defaults',)), S_('homonym_rand', count=300000), S_('bind'), S_('embed_small'), S_('embed_pairs', nc=64), S_('embed_rand', count=300000)],
        runtime_part=BINDER,
        level_text='Theorems about the Lean model of _embed/embed (soundness w.r.t. the outer-forwards-to-inner composite, parameters of the '
                   'fold, bare outer); correspondence exhaustive on 220x220 pairs, sampled on 220x2493x4 and on triples/quadruples.',
        level_note=NOTE + BINDER + '; ' + CTOR + '.',
    ),
    'C03': dict(
        title='mask: exact residual signature', proj='proj_shape_errclass', oracle='c03',
        quick=[S_('probes', nc=1, items=('mask_odd',)), S_('bind'), S_('mask0'), S_('maskflags_exh'), S_('maskflags', count=40000)],
        thorough=[S_('probes', nc=1, items=('mask_odd',)), S_('bind'), S_('mask0'), S_('maskflags_exh'), S_('maskflags', count=600000), S_('maskp')],
        runtime_part=BINDER,
        level_text='Theorems about the Lean model of _mask/mask (all signatures, all n, all name lists, no size bound) accepted by the Lean kernel; '
                   'the model is tied to /repo on every run by an exhaustive-on-small-universes differential correspondence '
                   '(U({a,b,c},3) x n x all name tuples in every order; all 16 flag combinations on U({a,b},2)).',
        level_note=NOTE + BINDER + '; ' + CTOR + '.',
    ),
    'C08': dict(
        title='provenance', proj='proj_prov', oracle='c08',
        quick=[S_('probes', nc=1, items=('callable_prov', 'depths_key')), S_('prov_rand', count=20000), S_('homonym_rand', count=20000), S_('merge_pairs'), S_('merge_pairs_stars'), S_('merge_roles', count=20000), S_('merge_laws'),
               S_('embed_small'), S_('embed_pairs'), S_('embed_rand', count=20000), S_('forwards_rand', count=30000),
               S_('mask0'), S_('maskp'), S_('maskflags', count=20000), S_('probes_c08', nc=1), S_('modsig'), S_('retrbound')],
        thorough=[S_('prov_rand', count=300000), S_('homonym_rand', count=300000), S_('merge_pairs'), S_('merge_pairs_stars'), S_('merge_roles', count=300000), S_('merge_rand', count=200000),
                  S_('merge_laws'), S_('embed_small'), S_('embed_pairs', nc=64), S_('embed_rand', count=300000),
                  S_('forwards_rand', count=300000), S_('forwards_exh', nc=32), S_('mask0'), S_('maskp'), S_('maskflags', count=200000), S_('probes_c08', nc=1), S_('modsig'), S_('retrbound')],
        runtime_part='identity of callables (modelled as integer ids)',
        level_text='Well-formedness of the provenance maps is an invariant of the Lean model of every algebra operation (theorems); the duplicate-free '
                   'clause is refuted on the code as it stands (finding D15) and proved under the hypothesis that excludes it. Correspondence compares '
                   'sources and +depths of every result, with inner star parameters named like and unlike the outer ones.',
        level_note=NOTE + 'object identity of callables; discovery results over real programs are covered by the checks of C05/C06.',
    ),
    'C09': dict(
        title='merge precision and laws', proj='proj_shape_errclass', oracle='c09',
        quick=[S_('probes', nc=1, items=('eq_defaults', 'laws_codeless')), S_('bind'), S_('apply'), S_('merge_laws'), S_('merge_pairs'), S_('merge_roles', count=20000), S_('meta_rand', count=20000)],
        thorough=[S_('probes', nc=1, items=('eq_defaults', 'laws_codeless')), S_('bind'), S_('apply'), S_('merge_laws'), S_('merge_pairs'), S_('merge_pairs_stars'), S_('merge_roles', count=300000), S_('meta_rand', count=200000)],
        runtime_part=BINDER,
        level_text='Identity, idempotence, neutral-element, round-trip and fold laws are theorems about the Lean model; exactness on aligned inputs is '
                   'checked by the oracle on all aligned pairs of the universe and sampled aligned tuples while its proof is in progress.',
        level_note=NOTE + BINDER + '; ' + CTOR + '.',
    ),
    'C10': dict(
        title='metadata rules', proj='proj_params', oracle='c10',
        quick=[S_('probes', nc=1, items=('nested_partial', 'late_binding')), S_('probes', nc=1, items=('eq_defaults',)), S_('meta_rand', count=40000), S_('meta_post', count=20000), S_('merge_roles', count=10000),
               S_('embed_rand', count=10000), S_('forwards_rand', count=20000), S_('partialfwd', count=600, oracle='c19'), S_('maskp')],
        thorough=[S_('probes', nc=1, items=('nested_partial', 'late_binding')), S_('probes', nc=1, items=('eq_defaults',)), S_('meta_rand', count=500000), S_('meta_post', count=200000), S_('merge_roles', count=100000),
                  S_('embed_rand', count=100000), S_('forwards_rand', count=200000), S_('partialfwd', count=2000, oracle='c19'), S_('maskp'), S_('forwards_exh', nc=32)],
        runtime_part='equality of default / annotation objects (modelled as token equality)',
        level_text='The one-step conciliation rules and their n-ary lift for defaults are theorems about the Lean model; the n-ary annotation rule is '
                   'refuted on the code as it stands (finding D14: theorem concile_annotation_nary_refuted) and proved under the hypothesis that '
                   'excludes it. Correspondence over the universe extended with default values {None,1,2} and annotations {absent,A,B}.',
        level_note=NOTE + '`==` on default and annotation objects.',
    ),
    'C15': dict(
        title='error discipline', proj='proj_err', oracle='c15',
        quick=[S_('probes', nc=1, items=('depths_key', 'bare_upgraded', 'plain_sequence', 'na_defaults')), S_('programs', count=2000, oracle='c05', proj='proj_full'), S_('probes_c15', nc=1, oracle='c05', proj='proj_full'), S_('homonym_rand', count=20000), S_('merge_pairs'), S_('merge_rand', count=20000), S_('embed_small'), S_('embed_rand', count=20000),
               S_('forwards_rand', count=30000), S_('maskflags_exh'), S_('maskflags', count=40000), S_('meta_rand', count=20000)],
        thorough=[S_('probes', nc=1, items=('depths_key', 'bare_upgraded', 'plain_sequence', 'na_defaults')), S_('programs', count=30000, oracle='c05', proj='proj_full'), S_('probes_c15', nc=1, oracle='c05', proj='proj_full'), S_('homonym_rand', count=300000), S_('merge_pairs'), S_('merge_pairs_stars'), S_('merge_rand', count=300000), S_('embed_small'),
                  S_('embed_pairs', nc=64), S_('embed_rand', count=300000), S_('forwards_rand', count=300000),
                  S_('maskflags_exh'), S_('maskflags', count=300000), S_('mask0'), S_('meta_rand', count=200000)],
        runtime_part=CTOR,
        level_text='The model has one explicit error constructor per Python operation that can raise, so "only ValueError / IncompatibleSignatures '
                   'escape and every result is a valid signature" are theorems about it; the correspondence maps every real exception to its class, '
                   'so any other exception from the real code is a disagreement by construction; each case also runs with downgraded (plain) inputs.',
        level_note=NOTE + CTOR + '; the warnings machinery.',
    ),
    'C04': dict(
        title='declared forwarding', proj='proj_full', oracle='c04',
        quick=[S_('bind'), S_('forwards_exh', nc=32), S_('forwards_rand', count=30000), S_('declfwd', count=800), S_('probes_c04', nc=1), S_('probes', nc=1, items=('receiver_names_c04',))],
        thorough=[S_('bind'), S_('forwards_exh', nc=32), S_('forwards_rand', count=400000), S_('declfwd', count=20000), S_('probes_c04', nc=1), S_('probes', nc=1, items=('receiver_names_c04',))],
        runtime_part='the forger protocol (set_signature_forger, forwards_to_method attribute walking, forwards_to_super, emulate) and execution of real wrappers',
        level_text='forwards = embed . mask is definitional in the Lean model and its soundness follows from the embed and mask theorems; the '
                   'correspondence compares real forwards with the model AND with real embed(outer, mask(inner)) in parameters and provenance; '
                   'real decorated wrappers (functions, methods, super) are executed on all call shapes (partial: runtime glue validated, not proved).',
        level_note=NOTE + 'decorator / forger plumbing, attribute lookup, execution of generated wrappers; ' + BINDER + '.',
    ),
    'C12': dict(
        title='modifiers', proj='proj_full', oracle='c12',
        quick=[S_('probes', nc=1, items=('odd_defaults_c12', 'hint_history', 'pok_receiver', 'pok_forms_direct', 'pok_remarks_c12')), S_('bindcall'), S_('pok'), S_('pokm'), S_('pokmforms'), S_('pokstacked'), S_('poknames'), S_('modorder', oracle='c18'), S_('lateattr', nc=1, oracle='c18')],
        thorough=[S_('probes', nc=1, items=('odd_defaults_c12', 'hint_history', 'pok_receiver', 'pok_forms_direct', 'pok_remarks_c12')), S_('bindcall'), S_('pok', nc=64), S_('pokm'), S_('pokmforms'), S_('pokstacked'), S_('poknames'), S_('modorder', oracle='c18'), S_('lateattr', nc=1, oracle='c18')],
        runtime_part='descriptor binding of the translator object, functools.update_wrapper',
        level_text='prepare (advertised signature, admissibility) and the call translation are modelled branch by branch; exactness of the translated call '
                   'w.r.t. a native function of the advertised signature is a theorem over a value-level model of CPython binding. Correspondence: every '
                   'function of the universe x every selection (inadmissible ones included) x every value-level call, functions and bound methods.',
        level_note=NOTE + 'the value-level binder model (validated against real calls by stream `bindcall`), descriptor protocol.',
    ),
    'C19': dict(
        title='functools.partial', proj='proj_full', oracle='c19',
        quick=[S_('probes', nc=1, items=('nested_partial', 'partial_odd')), S_('bind'), S_('partial'), S_('maskp'), S_('partialfwd', count=2200), S_('programs', count=16000, routes=('param',), ops=('pauto',))],
        thorough=[S_('probes', nc=1, items=('nested_partial', 'partial_odd')), S_('bind'), S_('partial'), S_('maskp'), S_('partialfwd', count=8000), S_('programs', count=160000, routes=('param',), ops=('pauto',))],
        runtime_part='functools.partial.__call__ (the oracle really calls the partial objects)',
        level_text='signature(partial) is _mask in partial mode: exactness w.r.t. "f accepts the bound plus the call arguments" is a theorem about the Lean '
                   'model; correspondence on real functools.partial objects of real functions (parameters, provenance, depths), plain and automatic retrieval.',
        level_note=NOTE + 'functools.partial runtime; ' + BINDER + '.',
    ),
    'C20': dict(
        title='support helpers', proj='proj_full', oracle='c20',
        quick=[S_('probes', nc=1, items=('odd_defaults_c20', 'support_text_odd')), S_('bindcall'), S_('callsig'), S_('makeup'), S_('readsig'), S_('resplit'), S_('readsigtext')],
        thorough=[S_('probes', nc=1, items=('odd_defaults_c20', 'support_text_odd')), S_('bindcall'), S_('callsig'), S_('makeup'), S_('readsig', count=60000), S_('resplit', count=200000), S_('readsigtext', count=100000)],
        runtime_part='Python\'s re and str.split (modelled character by character in Model/ReadSigText.lean and compared by stream resplit), str(Signature), CPython compiling the generated def (modelled by parseDef), exec in s/f/func_from_sig (stream readsig: read_sig and s() vs the model on every signature of the universe x 8 option combinations, the chevron spelling and random piece lists; round trips eager and postponed)',
        level_text='bind_callsig = CPython binding (outside the version-dependent case), sort_callsigs partition and make_up_callsigs completeness are theorems '
                   'about the Lean model; so is the string layer after the comma split (Model/ReadSig.lean): for every signature, s(str(sig)) reproduces it in the native spelling, and for every signature without positional-only parameters in all eight modifiers-based spellings up to the order of keyword-only parameters (theorems s_native, s_no_kwoargs, s_kwoargs, s_annotate_kwoargs, read_sig_kwoargs); the comma split and the regular expression are modelled on characters too (theorem read_sig_text_parts: on well-formed texts they give back exactly the tokens); and so is the step from the groups to pieces (theorem read_sig_text: read_sig from the text = read_sig on the pieces; stream readsigtext compares the whole of read_sig from the text); exec / compile are exercised by the correspondence only (partial).',
        level_note=NOTE + 'the string/regex/exec layer of support; the value-level binder model.',
    ),
    'C14': dict(
        title='drop-in inspect objects', proj='proj_full', oracle='c14',
        quick=[S_('probes', nc=1, items=('copy_eq', 'bind_receiver', 'eq_odd_annotations')), S_('eq'), S_('sigcmp')],
        thorough=[S_('probes', nc=1, items=('copy_eq', 'bind_receiver', 'eq_odd_annotations')), S_('eq'), S_('sigcmp')],
        runtime_part='inherited str()/bind()/bind_partial() (compared with a plain inspect.Signature over the universe x call shapes), attribute storage of replace()',
        level_text='The ==/!=/hash protocol (reflected operand first, NotImplemented fall-backs) of upgraded vs plain objects is modelled and its laws (total, reflexive, '
                   'symmetric, consistent with hash, hashable like the plain counterpart) are theorems; the model is compared with real ==, != and hash over a menagerie; '
                   'str/bind/bind_partial/replace are validated differentially against plain inspect objects (partial).',
        level_note=NOTE + 'the inherited inspect.Signature methods; `data` tokens abstract _hash_basis equality.',
    ),
    'C16': dict(
        title='no mutation, even on failure', proj='proj_full', oracle='c16',
        quick=[S_('probes', nc=1, items=('dict_unpack', 'lru_callee', 'none_attrs')), S_('cleanup'), S_('faults'), S_('alias', count=6000), S_('probes_c16', nc=1)],
        thorough=[S_('probes', nc=1, items=('dict_unpack', 'lru_callee', 'none_attrs')), S_('cleanup'), S_('faults'), S_('alias', count=60000), S_('probes_c16', nc=1)],
        runtime_part='which calls cross into outside code (the injector patches inspect.signature, inspect.getsource, ast.parse, user forgers and attribute getters), real attribute storage',
        level_text='cleanup_functools_wrapper + the as_forged guard are a step machine with a crash possible at every outside call: "attributes and guard are restored for every crash '
                   'point" is a theorem; the real context manager is compared with the model for every store shape x crash point, whole retrievals are run with an exception injected at '
                   'each successive outside call (exhaustive per scenario), and the algebra is checked for input mutation / aliasing by deep snapshots (partial).',
        level_note=NOTE + 'which operations are outside calls; asynchronous exceptions between two statements are outside the fault model (as the property says).',
    ),
    'C17': dict(
        title='concurrent retrieval', proj='proj_full', oracle='c17',
        quick=[S_('sched'), S_('threads_rt', nc=4), S_('preempt', nc=16), S_('probes', nc=4, items=('preempt2_0', 'preempt2_1', 'preempt2_2', 'preempt2_3'))],
        thorough=[S_('sched'), S_('threads_rt', nc=8), S_('preempt', nc=16), S_('probes', nc=4, items=('preempt2_0', 'preempt2_1', 'preempt2_2', 'preempt2_3'))],
        runtime_part="the interpreter's scheduler below line granularity; WeakValueDictionary's internal locking",
        level_text='The save/restore program run by N threads under an arbitrary schedule is a Lean model: restoration at quiescence is a theorem for any number of threads and any '
                   'schedule; the sequential-answer clause is refuted for the delete/restore window (finding D6, theorem sequential_answers_refuted). Real threads are single-stepped at '
                   'line granularity (all schedules with <= 2 preemptions), the model replays the logged order of shared accesses and must predict every answer (partial).',
        level_note=NOTE + 'preemption inside a single bytecode; the GIL scheduler.',
    ),
    'C18': dict(
        title='order / history independence, no retention', proj='proj_full', oracle='c18',
        quick=[S_('probes', nc=1, items=('hint_history', 'pok_forms_bound', 'pok_remarks_c18', 'annotate_bound_cache')), S_('cacheid', nc=8), S_('cache', maxlen=3), S_('modorder'), S_('pokm'), S_('lateattr', nc=1), S_('probes', nc=1, items=('owner_binding',)), S_('redecorate', nc=4)],
        thorough=[S_('probes', nc=1, items=('hint_history', 'pok_forms_bound', 'pok_remarks_c18', 'annotate_bound_cache')), S_('cacheid', nc=8, count=6000), S_('cache', maxlen=4), S_('modorder'), S_('pokm'), S_('lateattr', nc=1), S_('probes', nc=1, items=('owner_binding',)), S_('redecorate', nc=4)],
        runtime_part='the garbage collector and weakref callbacks (observed through weak references after gc.collect())',
        level_text='The descriptor cache is a heap-reachability model over arbitrary operation histories: no retention with the weak-value dictionary is a theorem (and retention with the '
                   'pinned weak-key one is its refutation, D7, repaired; a bound method stored under itself is retained, retention_selfEntry_refuted, D91, repaired: no_retention_noStore); order independence of stacked modifiers is the theorem prepare_set_ext. Real histories (all of length <= 3/4 over '
                   'two instances x eight descriptor kinds, plus seeded longer ones) are compared with the model through weak references (partial).',
        level_note=NOTE + 'the garbage collector, weakref.',
    ),
    'C05': dict(
        title='discovery is sound', proj='proj_full', oracle='c05',
        quick=[S_('probes', nc=2, items=('partial_mix', 'rebinding_forms', 'nonlocal_intermediate')), S_('bind'), S_('visitor_adv', nc=4), S_('visitor_corpus', star_only=True), S_('programs', count=3000),
               S_('progexec', count=3000, ops=('progexec',)), S_('probes_c05', nc=1)],
        thorough=[S_('probes', nc=2, items=('partial_mix', 'rebinding_forms', 'nonlocal_intermediate')), S_('bind'), S_('visitor_adv', nc=4), S_('visitor_corpus'), S_('programs', count=60000),
                  S_('progexec', count=60000, ops=('progexec',)), S_('probes_c05', nc=1)],
        runtime_part='name resolution through real globals / closures / attributes / bound arguments, decorator plumbing, execution of the generated wrappers',
        level_text='The AST walker is modelled on a generic tree covering every Python node type; that it is total and that, on every program of an inductively defined forwarding grammar '
                   '(unbounded length and nesting), it reports a star as forwarded only when it is pristine at the call (visitor = ground truth; visitor_eq_truth_named: also on the tree in which nested definitions are named, a store of the name followed by the function, which is what the real visitor sees since repair D85) are theorems; soundness of the reported signature '
                   'then follows from the forwards/merge theorems. Ties to /repo: the Lean walker vs the real CallListerVisitor on the AST of every star-taking corpus function and of generated '
                   'programs; the whole discovery (parameters + provenance) vs the model; generated wrappers are really executed on all non-colliding shapes (partial: two recorded findings D19, D23).',
        level_note=NOTE + 'runtime name resolution, execution; ' + BINDER + '.',
    ),
    'C06': dict(
        title='discovery = declaration; invariance', proj='proj_full', oracle='c06',
        quick=[S_('probes', nc=1, items=('lru_callee', 'kwname_decl')), S_('programs', count=3000), S_('progexec', count=3000, ops=('declared', 'variants')), S_('visitor_adv', nc=4), S_('probes_c06', nc=1), S_('programs_hint', count=6000)],
        thorough=[S_('probes', nc=1, items=('lru_callee', 'kwname_decl')), S_('programs', count=60000), S_('progexec', count=60000, ops=('declared', 'variants')), S_('visitor_adv', nc=4), S_('probes_c06', nc=1), S_('programs_hint', count=60000)],
        runtime_part='the modifiers hint protocol, functools.wraps-only decorators, real name resolution',
        level_text='visitor = ground truth on the forwarding grammar and hence discovery = explicit declaration (computed from the ground truth with the algebra) are theorems about the model, as is '
                   'invariance under decoy calls / unrelated statements / assignment targets; on the real code every generated wrapper is compared with the declaration computed through the public '
                   'algebra from the generator\'s own ground truth (parameters and provenance), and with source-level variants (statement context, comprehension, decorators that only wrap).',
        level_note=NOTE + 'runtime name resolution, decorator plumbing.',
    ),
    'C07': dict(
        title='retrieval is total and only narrows', proj='proj_full', oracle='c07',
        quick=[S_('probes', nc=1, items=('odd_defaults_c07', 'cycle_reload', 'self_forwarding_hint', 'na_defaults')), S_('visitor_corpus', limit=4000), S_('visitor_adv', nc=4), S_('chain', nc=4), S_('examine', nc=4), S_('probes', nc=3, items=('graph_totality_0', 'graph_totality_1', 'graph_totality_2')), S_('probes', nc=3, items=('adversarial2', 'other_thread', 'adversarial3')), S_('retrieve'), S_('programs', count=16000, routes=('self', 'param'), ops=('pauto',))],
        thorough=[S_('probes', nc=1, items=('odd_defaults_c07', 'cycle_reload', 'self_forwarding_hint', 'na_defaults')), S_('visitor_corpus'), S_('visitor_adv', nc=4), S_('chain', nc=4), S_('examine', nc=4), S_('probes', nc=3, items=('graph_totality_0', 'graph_totality_1', 'graph_totality_2')), S_('probes', nc=3, items=('adversarial2', 'other_thread', 'adversarial3')), S_('retrieve'), S_('programs', count=160000, routes=('self', 'param'), ops=('pauto',))],
        runtime_part='what inspect, getsource, ast.parse, getattr and Sphinx raise on real objects (validated over the corpus, not proved)',
        level_text='Totality of the AST walker on arbitrary trees (theorem visitor_total: the deferred-call queue always drains), of the fallback chain of the model, and of discovery over functions that forward to each other (theorems forged_total / depth_bounded over Model/Examine: on every closed call graph, cycles and modifiers-decorated functions included, the guarded examination returns and never nests deeper than the number of functions; the guard events are compared with the real ones by stream examine); the real retrieval is run over every '
                   'star-taking function and a seeded sample (thorough: all) of the ~2*10^4 callables of the importable standard library and installed packages plus adversarial sources, comparing the '
                   'outcome class with inspect.signature, checking that plain functions are only narrowed, and that the Sphinx hook returns two strings (partial).',
        level_note=NOTE + 'inspect / ast / getattr / Sphinx behaviour on real objects.',
    ),
    'C11': dict(
        title='postponed annotations', proj='proj_uann', oracle='c11',
        quick=[S_('probes', nc=1, items=('late_binding', 'annot_namespace')), S_('meta_post', count=30000), S_('meta_rand', count=10000), S_('annot', count=4000), S_('probes', nc=1, items=('annot_scopes',)), S_('probes_c11', nc=1)],
        thorough=[S_('probes', nc=1, items=('late_binding',)), S_('meta_post', count=300000), S_('meta_rand', count=100000), S_('annot', count=60000), S_('probes', nc=1, items=('annot_scopes',)), S_('probes_c11', nc=1)],
        runtime_part='eval() of postponed annotations in real function globals (stream `annot` compiles real twins with and without the future flag, shared and per-function globals)',
        level_text='The algebra carries the (annotation, upgraded annotation) pair of a parameter around without looking inside: that every pair of a result is literally the pair of an input parameter '
                   '(so a postponed annotation is never re-associated with another function\'s globals) is a theorem for merge/embed/mask/forwards/partial/modifiers; twin invariance is refuted at full '
                   'strength (finding D10: spellings are compared) and proved under faithfulness of spellings. Correspondence compares upgraded annotations of every algebra result (partial).',
        level_note=NOTE + 'eval of annotation strings.',
    ),
    'C13': dict(
        title='wrappers are call-transparent', proj='proj_full', oracle='c13',
        quick=[S_('probes', nc=1, items=('c13_r8', 'receiver_names_c13', 'wrap_named_star')), S_('wrap', count=640), S_('probes', nc=1, items=('owner_binding',)), S_('wlist', nc=4)],
        thorough=[S_('probes', nc=1, items=('c13_r8', 'receiver_names_c13', 'wrap_named_star')), S_('wrap', count=12000), S_('probes', nc=1, items=('owner_binding',)), S_('wlist', nc=4)],
        runtime_part='functools.partial / descriptor call path: call transparency is definitional in any model and is validated on the real objects, not proved',
        level_text='Introspection side as theorems: wrappers() order for any stack depth, each stack level is a forwards (hence sound by C04), the Combination signature is sound for consistently named '
                   'functions (instance of the n-ary merge soundness theorem). Real side: decorator / wrapper_decorator stacks of depth 1-3 as function / method / staticmethod and Combinations of 1-3 '
                   'functions are compared with the hand-written composition on all call shapes, results and TypeErrors included (partial; finding D28).',
        level_note=NOTE + 'the real call path (functools.partial, descriptors).',
    ),
}
