"""harness/real_r8.py — adapters added in session 8: the string layer of sigtools.support vs Model/ReadSig.lean

requests
  ('readsig', ua, upo, ukw, pieces)   support.read_sig on the text of the pieces  (names, annotations, posoarg_n, kwoarg_n, params)
  ('stext',   ua, upo, ukw, pieces)   the parameters of support.s(text, …)        (or the exception class)
  ('pieces',  params)                 str(inspect.Signature(params)) vs the text of the model's `pieces`

a piece is ('S',) | ('B',) | (tag, name, ann, dflt) with tag in c / s1 / s2 / p; annotation tokens are written as integer
literals, default tokens as the repr of the default object (0 = None).
"""
import inspect
import warnings
import zlib

from . import core

OPS = {}


def piece_text(pc):
    if pc[0] == 'S':
        return '/'
    if pc[0] == 'B':
        return '*'
    tag, n, a, d = pc
    t = {'c': '<%s>', 's1': '*%s', 's2': '**%s', 'p': '%s'}[tag] % n
    if a is not None:
        t += ':%d' % a
    if d is not None:
        t += '=%s' % ('None' if d == 0 else str(d))
    return t


def text_of(pcs, sep=', '):
    return sep.join(piece_text(p) for p in pcs)


def piece_line(pc):
    if pc[0] in ('S', 'B'):
        return pc[0]
    tag, n, a, d = pc
    return '%s:%d:%s:%s' % (tag, core.NAMES.id(n), '-' if a is None else a, '-' if d is None else d)


def line(req):
    op = req[0]
    if op in ('readsig', 'stext'):
        _, ua, upo, ukw, pcs = req
        return '%s %d %d %d %s' % (op, ua, upo, ukw, ','.join(piece_line(p) for p in pcs) or '_')
    if op == 'pieces':
        return 'pieces %s' % core.params_line(req[1])
    raise core.HarnessError(op)


def _sep(req):
    return (', ', ',', ',  ')[zlib.crc32(repr(req).encode()) % 3]


def _item_text(stars, n, a, d):
    t = '*' * stars + core.NAMES.name(n)
    if a is not None:
        t += ': %d' % a
    if d is not None:
        t += '=%s' % ('None' if d == 0 else str(d))
    return t


def parse_model(req, ml):
    toks = ml.split()
    op = req[0]
    if op == 'readsig':
        ids = lambda s: () if s == '_' else tuple(int(x) for x in s.split('.'))  # noqa
        anns = () if toks[2] == '_' else tuple(tuple(int(y) for y in x.split('=')) for x in toks[2].split('.'))
        items = []
        if toks[5] != '_':
            for it in toks[5].split(','):
                if it in ('/', '*'):
                    items.append(it)
                else:
                    s, n, a, d = it.split(':')
                    items.append(_item_text(int(s), int(n), None if a == '-' else int(a), None if d == '-' else int(d)))
        return ('ok', ids(toks[1]), anns, ids(toks[3]), ids(toks[4]), ', '.join(items))
    if op == 'stext':
        if toks[0] == 'err':
            return ('err', toks[1])
        ps = []
        if toks[1] != '_':
            for q in toks[1].split(','):
                n, k, df, an, ua = q.split(':')
                ps.append((int(n), k, None if df == '-' else int(df), None if an == '-' else int(an)))
        return ('ok', tuple(ps))
    if op == 'pieces':
        pcs = []
        if toks[1] != '_':
            for it in toks[1].split(','):
                t = it.split(':')
                if t[0] in ('S', 'B'):
                    pcs.append((t[0],))
                else:
                    pcs.append((t[0], core.NAMES.name(int(t[1])), None if t[2] == '-' else int(t[2]), None if t[3] == '-' else int(t[3])))
        return ('ok', text_of(pcs).replace(' ', ''))
    raise core.HarnessError(op)


def real_readsig(req):
    from sigtools import support
    _, ua, upo, ukw, pcs = req
    text = text_of(pcs, _sep(req))
    try:
        names, ret, anns, poso, kwo, params, flag = support.read_sig(
            text, use_modifiers_annotate=bool(ua), use_modifiers_posoargs=bool(upo), use_modifiers_kwoargs=bool(ukw))
    except Exception as e:  # noqa
        return ('err', type(e).__name__)
    I = core.NAMES.id  # noqa
    norm = ', '.join(' '.join(x.split()) for x in params.split(', ')) if params else ''
    return ('ok', tuple(I(n) for n in names), tuple((I(k), int(v)) for k, v in anns.items()), tuple(I(n) for n in poso),
            tuple(I(n) for n in kwo), norm)


OPS['readsig'] = real_readsig


def real_stext(req):
    from sigtools import support
    _, ua, upo, ukw, pcs = req
    text = text_of(pcs, _sep(req))
    try:
        with warnings.catch_warnings():
            warnings.simplefilter('ignore')
            sig = support.s(text, use_modifiers_annotate=bool(ua), use_modifiers_posoargs=bool(upo), use_modifiers_kwoargs=bool(ukw))
    except Exception as e:  # noqa
        return ('err', type(e).__name__)
    out = []
    for p in sig.parameters.values():
        d = None if p.default is p.empty else (0 if p.default is None else int(p.default))
        a = None if p.annotation is p.empty else int(p.annotation)
        out.append((core.NAMES.id(p.name), core.KIND_NAME[p.kind], d, a))
    return ('ok', tuple(out))


OPS['stext'] = real_stext


def real_pieces(req):
    ps = req[1]
    params = [inspect.Parameter(p[0], core.KINDS[p[1]], default=inspect.Parameter.empty if p[2] is None else (None if p[2] == 0 else p[2]),
                                annotation=inspect.Parameter.empty if p[3] is None else p[3]) for p in ps]
    return ('ok', str(inspect.Signature(params))[1:-1].replace(' ', ''))


OPS['pieces'] = real_pieces


# ----------------------------------------------------------------------------- runtime probes (session 8)
RT = {}

ADV3_SOURCES = '''
import functools
from sigtools import specifiers, modifiers
def g(a, b=1, *, c=2): return a
class Base: pass
class Sub(Base):
    @specifiers.forwards_to_super()
    def m(self, *args, **kwargs): return super().m(*args, **kwargs)
    def via(self, *args, **kwargs): return self.m(*args, **kwargs)
sub_inst = Sub()
def gen():
    yield 1
    raise RuntimeError('boom')
ITEMS = gen()
def unpack_gen(**kwargs): return g(*ITEMS, **kwargs)
COUNTER = iter([1, 2, 3])
def unpack_iter(**kwargs): return g(*COUNTER, **kwargs)
class Pairs:
    # a mapping-like object that is not a dict: unpacking it runs its code
    calls = 0
    def keys(self): Pairs.calls += 1; return ['c']
    def __getitem__(self, k): Pairs.calls += 1; return 5
PAIRS = Pairs()
def unpack_pairs(*args): return g(*args, **PAIRS)
TUP = (7,)
def unpack_tuple(**kwargs): return g(*TUP, **kwargs)
class FalsyCallable:
    def __len__(self): return 0
    def __call__(self, a: int, b: 'str' = '') -> str: return b
class TruthyCallable:
    def __call__(self, a: int, b: 'str' = '') -> str: return b
falsy = FalsyCallable()
truthy = TruthyCallable()
class NE:
    def __ne__(self, o): raise TypeError('no compare')
    def __eq__(self, o): raise TypeError('no compare')
    __hash__ = object.__hash__
    def __repr__(self): return 'NE()'
def ne_ret(a) -> NE(): return a
%s
OBJECTS = [sub_inst.via, unpack_gen, unpack_iter, unpack_pairs, unpack_tuple, falsy, truthy, ne_ret, chain_40, chain_250, chain_400]
DECLARED = [sub_inst.m]
HOOK = ['ne_ret', 'g']
''' % '\n'.join(['def chain_0(a, b=1): return a'] +
                ['def chain_%d(*args, **kwargs): return chain_%d(*args, **kwargs)' % (i, i - 1) for i in range(1, 401)])


def rt_adversarial3(req):
    """C07 on the callables of session 8 (forwards_to_super without a method further up, forwarding calls that unpack known
    iterators / mapping-likes, a callable object that is falsy, an annotation that cannot be compared, long chains of
    forwarding functions): the outcome rules of adversarial2, plus: known iterators are not used up, no code of unpacked
    objects is run, the falsy object answers like its truthy twin (also under warnings-as-errors)"""
    import sys as _sys, warnings, inspect
    import sigtools
    from sigtools import specifiers, signatures, sphinxext
    from . import progs, real_r7
    mod, fname = progs.load_module(ADV3_SOURCES)
    problems = []
    try:
        for declared, objs in ((False, mod.OBJECTS), (True, mod.DECLARED)):
            for obj in objs:
                what = getattr(obj, '__qualname__', None) or type(obj).__name__
                insp = real_r7._outcome(inspect.signature, obj)
                for name, fn in (('sigtools.signature', sigtools.signature),
                                 ('signature(auto=False)', lambda o: specifiers.signature(o, auto=False)),
                                 ('signatures.signature', signatures.signature)):
                    o = real_r7._outcome(fn, obj)
                    if o[0] == 'hangs':
                        problems.append('retrieval-hangs: %s(%s)' % (name, what))
                    elif insp[0] == 'ok' and o[0] != 'ok':
                        if declared and o[1] == 'ValueError':
                            continue
                        problems.append('retrieval-raises: %s(%s) raised %s although inspect.signature succeeds' % (name, what, o[1]))
                    elif insp[0] == 'raised' and o[0] == 'raised' and o[1] != insp[1]:
                        problems.append('different-exception: %s(%s) raised %s, inspect.signature raised %s' % (name, what, o[1], insp[1]))
        # what discovery may not do to the objects it meets
        if next(mod.COUNTER, None) != 1:
            problems.append('retrieval-consumes-iterator: after retrieving the signature of unpack_iter the module-level iterator it unpacks has been advanced')
        if mod.Pairs.calls:
            problems.append('retrieval-runs-unpacked-object: retrieving the signature of unpack_pairs called the methods of the mapping-like it unpacks %d times' % mod.Pairs.calls)
        # the tuple IS followed (a plain sequence)
        with warnings.catch_warnings():
            warnings.simplefilter('ignore')
            if str(sigtools.signature(mod.unpack_tuple)) != '(*, c=2)':      # a star argument that is not the function's own hides the positional parameters
                problems.append('known-tuple-not-followed: sigtools.signature(unpack_tuple) = %s' % sigtools.signature(mod.unpack_tuple))
        # falsy vs truthy twin, warnings as errors
        for name, fn in (('sigtools.signature', sigtools.signature), ('signatures.signature', signatures.signature)):
            outs = []
            for o in (mod.falsy, mod.truthy):
                try:
                    with warnings.catch_warnings():
                        warnings.simplefilter('error')
                        sg = fn(o)
                        outs.append((str(sg), str(sg.evaluated())))
                except BaseException as e:  # noqa
                    outs.append(('raised', type(e).__name__))
            if outs[0] != outs[1]:
                problems.append('falsy-callable-differs: %s of a callable object whose truth value is false gives %s, of its truthy twin %s' % (name, outs[0], outs[1]))
        # a long chain: the answer is the chain's end or the plain signature, never an exception
        for nm in ('chain_40', 'chain_250', 'chain_400'):
            o = real_r7._outcome(sigtools.signature, getattr(mod, nm), secs=60)
            if o[0] == 'ok' and str(o[2]) not in ('(a, b=1)', '(*args, **kwargs)'):
                problems.append('chain-answer: sigtools.signature(%s) = %s' % (nm, o[2]))
        _sys.modules[mod.__name__] = mod
        try:
            for dotted in mod.HOOK:
                want_sig = inspect.signature(getattr(mod, dotted))
                want = (str(want_sig.replace(return_annotation=want_sig.empty)),
                        '' if want_sig.return_annotation is want_sig.empty else repr(want_sig.return_annotation))
                try:
                    with warnings.catch_warnings():
                        warnings.simplefilter('ignore')
                        r = sphinxext.process_signature(None, 'function', mod.__name__ + '.' + dotted, None, None, '(PASSED)', 'RET')
                except BaseException as e:  # noqa
                    problems.append('sphinx-hook-raises: process_signature(%s) raised %s: %s' % (dotted, type(e).__name__, str(e)[:80]))
                    continue
                if r != want:
                    problems.append('sphinx-hook-strings: process_signature(%s) returned %r; expected %r' % (dotted, r, want))
        finally:
            _sys.modules.pop(mod.__name__, None)
    finally:
        progs.unload(fname)
    return ("ok", tuple(problems[:14]), "adversarial3")


RT['adversarial3'] = rt_adversarial3

_COLZERO = '''
def g(x, y, *, z): return x
class A:
    def method(self, *args, **kwargs):
        s = """
column zero text
"""
        return g(*args, **kwargs)

    def method2(self, *args, **kwargs):
# comment at column zero
        return g(*args, **kwargs)

    def method3(self, a, *args, **kwargs):
        if a:
  # a comment less indented than the def
            return g(a, *args, **kwargs)
        return g(*args, **kwargs)

    def twin(self, *args, **kwargs):
        return g(*args, **kwargs)

    def twin3(self, a, *args, **kwargs):
        if a:
            return g(a, *args, **kwargs)
        return g(*args, **kwargs)
def outer():
    def inner(*args, **kwargs):
        t = """
zero
"""
        return g(*args, **kwargs)
    def inner_twin(*args, **kwargs):
        return g(*args, **kwargs)
    return inner, inner_twin
'''


def rt_column_zero(req):
    """C06 (unrelated statements / statement context): text to the left of an indented def — the inside of a multi-line string,
    a comment at column zero — does not change what is discovered: same signature and provenance shape as the twin without it"""
    import warnings
    import sigtools
    from . import progs
    mod, fname = progs.load_module(_COLZERO)
    problems = []
    try:
        a = mod.A()
        inner, inner_twin = mod.outer()
        for nm, f, twin in (('A.method (string content at column zero)', a.method, a.twin),
                            ('A.method2 (comment at column zero)', a.method2, a.twin),
                            ('A.method3 (comment left of the def)', a.method3, a.twin3),
                            ('outer.inner (string content at column zero)', inner, inner_twin)):
            with warnings.catch_warnings():
                warnings.simplefilter('ignore')
                try:
                    got, want = sigtools.signature(f), sigtools.signature(twin)
                except BaseException as e:  # noqa
                    problems.append('column-zero-raises: %s: %s' % (nm, type(e).__name__))
                    continue
            if str(got) != str(want) or sorted(k for k in got.sources if k != '+depths') != sorted(k for k in want.sources if k != '+depths'):
                problems.append('irrelevant-text-changes-discovery: sigtools.signature(%s) = %s, of its twin without that text %s' % (nm, got, want))
    finally:
        progs.unload(fname)
    return ('ok', tuple(problems[:4]), 'column_zero')


RT['column_zero'] = rt_column_zero


# ----------------------------------------------------------------------------- round 8 probes
class _AnyEq(object):
    """a default value that compares equal to everything (unittest.mock.ANY, matchers)"""
    def __eq__(self, other): return True
    def __ne__(self, other): return False
    __hash__ = object.__hash__
    def __repr__(self): return 'ANYEQ'


class _NoTruthEq(object):
    """a default value whose == has no truth value (arrays, symbolic expressions)"""
    def __eq__(self, other): return _NoTruth()
    def __ne__(self, other): return _NoTruth()
    __hash__ = object.__hash__
    def __repr__(self): return 'NOTRUTH'


class _NoTruth(object):
    def __bool__(self): raise ValueError('truth value is ambiguous')


class _NoTruthEqT(object):
    """the same, the refusal being a TypeError"""
    def __eq__(self, other): return _NoTruthT()
    def __ne__(self, other): return _NoTruthT()
    __hash__ = object.__hash__
    def __repr__(self): return 'NOTRUTHT'


class _NoTruthT(object):
    def __bool__(self): raise TypeError('no truth value')


def _sigdata(sig):
    return tuple((p.name, p.kind.name, 'EMPTY' if p.default is p.empty else repr(p.default)) for p in sig.parameters.values())


def _try(fn):
    try:
        return ('ok', fn())
    except BaseException as e:  # noqa
        return ('raised', type(e).__name__)


def rt_odd_defaults(req):
    """C12 / C20 / C07: default values with liberal or truth-less equality are ordinary defaults: autokwoargs (with and
    without exceptions=) converts them, bind_callsig fills them in, two forwarding call sites merge them"""
    import inspect, warnings
    import sigtools
    from sigtools import modifiers, support
    from . import progs
    which = req[1] if len(req) > 1 else 'all'
    problems = []
    ANY, NT = _AnyEq(), _NoTruthEq()
    with warnings.catch_warnings():
        warnings.simplefilter('ignore')
        if which in ('all', 'c12'):
            for label, d in (('equal-to-everything', ANY), ('truth-less ==', NT)):
                def f(a, b=d, c=1): return (a, b, c)
                def twin(a, b=7, c=1): return (a, b, c)
                for kw in ({}, {'exceptions': ('b',)}, {'exceptions': ('c',)}):
                    got = _try(lambda: _sigdata(inspect.signature(modifiers.autokwoargs(**kw)(f) if kw else modifiers.autokwoargs(f))))
                    want = _try(lambda: _sigdata(inspect.signature(modifiers.autokwoargs(**kw)(twin) if kw else modifiers.autokwoargs(twin))))
                    norm = lambda r: r if r[0] != 'ok' else ('ok', tuple((n, k, 'D' if dv != 'EMPTY' else dv) for n, k, dv in r[1]))  # noqa
                    if norm(got) != norm(want):
                        problems.append('odd-default-autokwoargs: autokwoargs(%s) over (a, b=<%s>, c=1) gives %s, over the twin with an ordinary default %s' % (
                            kw, label, got, want))
                g = modifiers.autokwoargs(f)
                r = _try(lambda: g(0, c=5))
                if r != ('ok', (0, d, 5)) and not (r[0] == 'ok' and r[1][0] == 0 and r[1][1] is d and r[1][2] == 5):
                    problems.append('odd-default-autokwoargs-call: autokwoargs(f)(0, c=5) with a %s default -> %s' % (label, r))
        if which in ('all', 'c20'):
            for label, d in (('equal-to-everything', ANY), ('truth-less ==', NT)):
                def h(a, b=d, *, c=d): return {'a': a, 'b': b, 'c': c}
                sig = inspect.signature(h)
                for args, kwargs in (((1,), {}), ((1, 2), {}), ((1,), {'c': 3}), ((), {})):
                    real = _try(lambda: h(*args, **kwargs))
                    got = _try(lambda: dict(support.bind_callsig(sig, args, kwargs)))
                    same = (real[0] == got[0]) and (real[0] != 'ok' or (set(real[1]) == set(got[1]) and all(real[1][k] is got[1][k] or (
                        not isinstance(real[1][k], (_AnyEq, _NoTruthEq)) and real[1][k] == got[1][k]) for k in real[1])))
                    if real[0] == 'raised' and got[0] == 'raised' and got[1] == 'TypeError':
                        same = True
                    if not same:
                        problems.append('odd-default-bind_callsig: bind_callsig(%s, %s, %s) with %s defaults -> %s, the call gives %s' % (
                            sig, args, kwargs, label, got, real))
                v = _try(lambda: support.sort_callsigs(sig, [((1,), {}), ((), {})]))
                if v[0] != 'ok' or len(v[1][0]) != 1 or len(v[1][1]) != 1:
                    problems.append('odd-default-sort_callsigs: sort_callsigs with %s defaults -> %s' % (label, v if v[0] != 'ok' else (len(v[1][0]), len(v[1][1]))))
        if which in ('all', 'c07'):
            body = '(flag, *args, own=%s, **kwargs):\n    if flag:\n        return target(*args, **kwargs)\n    return target(*args, **kwargs)\n'
            src = ('from %s import _AnyEq, _NoTruthEq, _NoTruthEqT\nNT = _NoTruthEq()\nNTT = _NoTruthEqT()\nANY = _AnyEq()\ndef target(x, y=1, *, z=2): return x\n' % __name__ +
                   'def two_sites' + body % 'NT' + 'def two_sites_t' + body % 'NTT' + 'def two_sites_any' + body % 'ANY' + 'def twin' + body % '7')
            mod, fname = progs.load_module(src)
            try:
                want = _try(lambda: str(sigtools.signature(mod.twin)).replace('own=7', 'own=D'))
                for nm, rep in (('two_sites', 'NOTRUTH'), ('two_sites_t', 'NOTRUTHT'), ('two_sites_any', 'ANYEQ')):
                    fobj = getattr(mod, nm)
                    r = _try(lambda: str(sigtools.signature(fobj)).replace('own=' + rep, 'own=D'))
                    i = _try(lambda: str(inspect.signature(fobj)))
                    if i[0] == 'ok' and r[0] != 'ok':
                        problems.append('retrieval-raises: sigtools.signature(%s) raised %s although inspect.signature succeeds (a default with unusual == met at two forwarding call sites)' % (nm, r[1]))
                    elif r != want:
                        problems.append('odd-default-discovery: sigtools.signature(%s) = %s, of the twin with an ordinary default %s' % (nm, r, want))
            finally:
                progs.unload(fname)
    return ('ok', tuple(problems[:6]), 'odd_defaults')


RT['odd_defaults'] = rt_odd_defaults


def rt_partial_mix(req):
    """C05: a body that mentions functools.partial(target, *args, **kwargs) AND calls target(*args, **kwargs) directly, in either
    order / on different branches: every accepted call must run (the direct call's required parameters stay required)"""
    import warnings
    import sigtools
    from sigtools import signatures
    from . import progs
    src = '''
import functools
LOG = []
def target(x, y, *, z): return (x, y, z)
def later_first(*args, **kwargs):
    retry = functools.partial(target, *args, **kwargs)
    LOG.append(retry)
    return target(*args, **kwargs)
def direct_first(*args, **kwargs):
    r = target(*args, **kwargs)
    LOG.append(functools.partial(target, *args, **kwargs))
    return r
def branches(flag, *args, **kwargs):
    if flag:
        return functools.partial(target, *args, **kwargs)
    return target(*args, **kwargs)
def two_direct_after(flag, *args, **kwargs):
    LOG.append(functools.partial(target, *args, **kwargs))
    if flag:
        return target(*args, **kwargs)
    return target(*args, **kwargs)
# a bare name handed to partial(...) counts as handed over; attributes and a second callee do not
def other(p, x, y=2, *, z=3): return (p, x, y, z)
def lazy_or_now(flag, *args, **kwargs):
    if flag:
        return functools.partial(target, *args, **kwargs)
    return other('now', *args, **kwargs)
class Job(object):
    def handler(self, x, y, *, z): return (x, y, z)
    def with_retry(self, *args, **kwargs):
        retry = functools.partial(self.handler, *args, **kwargs)
        LOG.append(retry)
        return self.handler(*args, **kwargs)
    def retry_after(self, *args, **kwargs):
        r = self.handler(*args, **kwargs)
        LOG.append(functools.partial(self.handler, *args, **kwargs))
        return r
job = Job()
'''
    mod, fname = progs.load_module(src)
    problems = []
    shapes = [((), {}), ((1,), {}), ((1, 2), {}), ((1, 2), {'z': 3}), ((), {'x': 1, 'y': 2, 'z': 3}), ((1,), {'z': 3}), ((), {'z': 3})]
    try:
        for nm, lead in (('later_first', ()), ('direct_first', ()), ('branches', (0,)), ('two_direct_after', (0,)), ('two_direct_after', (1,)),
                         ('lazy_or_now', (0,)), ('job.with_retry', ()), ('job.retry_after', ())):
            f = getattr(mod.job, nm[4:]) if nm.startswith('job.') else getattr(mod, nm)
            with warnings.catch_warnings():
                warnings.simplefilter('ignore')
                sig = sigtools.signature(f)
                if str(sig) == str(signatures.signature(f)):
                    continue        # the plain signature: C05 claims nothing more
            for a, k in shapes:
                a = lead + a
                try:
                    sig.bind(*a, **k)
                except TypeError:
                    continue
                try:
                    f(*a, **k)
                except TypeError as e:
                    problems.append('partial-mix-unsound: sigtools.signature(%s) = %s accepts %s %s but the call raises TypeError: %s' % (nm, sig, a, k, str(e)[:80]))
                    break
    finally:
        progs.unload(fname)
    return ('ok', tuple(problems[:4]), 'partial_mix')


RT['partial_mix'] = rt_partial_mix


def rt_lru_callee(req):
    """C06 / C16: a forwarding wrapper whose callee is a functools.lru_cache wrapper (found through __wrapped__ only): discovery
    equals the explicit declaration, twice in a row, and the callee keeps its attributes"""
    import functools, warnings
    import sigtools
    from sigtools import signatures
    from . import progs
    src = '''
import functools
@functools.lru_cache(maxsize=None)
def cached(x, y=1, *, z=2): return x
def wrapper(a, *args, **kwargs): return cached(*args, **kwargs)
def wrapper_plain(a, *args, **kwargs): return None
'''
    mod, fname = progs.load_module(src)
    problems = []
    try:
        before = sorted(k for k in dir(mod.cached) if k in ('__wrapped__', '__signature__'))
        with warnings.catch_warnings():
            warnings.simplefilter('ignore')
            want = str(signatures.forwards(signatures.signature(mod.wrapper_plain), signatures.signature(mod.cached)))
            got = [str(sigtools.signature(mod.wrapper)) for _ in range(2)]
            direct = [_try(lambda: str(sigtools.signature(mod.cached))) for _ in range(2)]
        if got != [want, want]:
            problems.append('lru-callee-discovery: sigtools.signature(wrapper) twice = %s, forwards(wrapper, cached) = %s' % (got, want))
        if direct != [('ok', '(x, y=1, *, z=2)')] * 2:
            problems.append('lru-callee-direct: sigtools.signature(lru_cache wrapper) twice = %s' % (direct,))
        after = sorted(k for k in dir(mod.cached) if k in ('__wrapped__', '__signature__'))
        if after != before:
            problems.append('attributes-changed: the lru_cache wrapper had %s, now has %s' % (before, after))
    finally:
        progs.unload(fname)
    return ('ok', tuple(problems), 'lru_callee')


RT['lru_callee'] = rt_lru_callee


def rt_nested_partial(req):
    """C10 / C19: partial objects of partial objects that functools does not flatten (the inner one has attributes or is an
    instance of a subclass), re-binding a keyword, and partial subclasses with a Python-level __call__: the signature is
    the one inspect reports, the default shown is the value the function receives, the partial has depth 0"""
    import functools, inspect, warnings
    import sigtools
    from sigtools import signatures
    problems = []

    def f(a, b=0, *, k=0, j=0): return (a, b, k, j)

    class Sub(functools.partial):
        pass

    class Tracing(functools.partial):
        def __call__(self, *args, **kwargs):
            return super().__call__(*args, **kwargs)

    class Tracing2(functools.partial):
        def __call__(self, *args, **kwargs):
            return functools.partial.__call__(self, *args, **kwargs)
    inner = functools.partial(f, k=1)
    inner.note = 'kept apart'
    cases = [('attr-inner rebinding k', functools.partial(inner, k=2)),
             ('attr-inner rebinding k, binding j', functools.partial(inner, 5, k=2, j=3)),
             ('subclass-inner rebinding k', functools.partial(Sub(f, k=1), k=2)),
             ('three levels', functools.partial(functools.partial(inner, k=2), k=3)),
             ('subclass with __call__ (super)', Tracing(f, 1, k=4)),
             ('subclass with __call__ (explicit)', Tracing2(f, 1, k=4)),
             ('nothing bound', functools.partial(f))]
    with warnings.catch_warnings():
        warnings.simplefilter('ignore')
        for label, p in cases:
            want = _sigdata(inspect.signature(p))
            for nm, fn in (('signatures.signature', signatures.signature), ('sigtools.signature', sigtools.signature)):
                r = _try(lambda: fn(p))
                if r[0] != 'ok':
                    problems.append('nested-partial-raises: %s(%s) raised %s' % (nm, label, r[1]))
                    continue
                if _sigdata(r[1]) != want:
                    problems.append('nested-partial-signature: %s(%s) = %s, inspect.signature gives %s' % (nm, label, r[1], inspect.signature(p)))
                    continue
                dp = r[1].sources.get('+depths', {})
                if dp.get(p) != 0:
                    problems.append('partial-depth: %s(%s): the partial object has depth %r in %s' % (nm, label, dp.get(p), {getattr(k, '__name__', type(k).__name__): v for k, v in dp.items()}))
            got = p() if 'binding j' in label or 'subclass with' in label else p(9)
            shown = {n: d for n, kd, d in want}
            if repr(got[2]) != shown.get('k'):
                problems.append('nested-partial-default: %s shows k=%s but the function receives k=%r' % (label, shown.get('k'), got[2]))
    return ('ok', tuple(problems[:6]), 'nested_partial')


RT['nested_partial'] = rt_nested_partial


def rt_late_binding(req):
    """C11: postponed annotations denote what the names mean in the defining module NOW (names bound or rebound after the
    signature was retrieved, also for signatures stored at decoration time); a quoted annotation is a string, as for the
    eager twin; one-sided annotations survive merge in both orders, evaluated"""
    import __future__, types, sys, warnings
    import sigtools
    from sigtools import signatures, modifiers
    problems = []

    def mod(name, src, future=True):
        m = types.ModuleType(name)
        m.modifiers = modifiers
        exec(compile(src, name + '.py', 'exec', __future__.annotations.compiler_flag if future else 0, dont_inherit=True), m.__dict__)
        return m
    src = ('def f(x: Later, y: "Tree" = None) -> Later: return x\n'
           '@modifiers.kwoargs("k")\ndef g(a: Later, k: Later = None) -> "Tree": return a\n'
           'def plain(x, y=None): return x\n')
    with warnings.catch_warnings():
        warnings.simplefilter('ignore')
        m = mod('verif_late_a', src)
        sigs = {'f': sigtools.signature(m.f), 'g': sigtools.signature(m.g), 'masked': signatures.mask(sigtools.signature(m.f), 0, 'y')}
        m.Later = int          # bound after retrieval
        m.Tree = bytes

        def ev(sig):
            e = sig.evaluated()
            return tuple((p.name, p.annotation) for p in e.parameters.values() if p.annotation is not p.empty) + (('return', e.return_annotation),)
        for nm, sg in sigs.items():
            r = _try(lambda: ev(sg))
            if r[0] != 'ok':
                problems.append('late-binding-raises: evaluated() of the signature of %s retrieved before its names were bound raised %s' % (nm, r[1]))
            elif any(v not in (int, 'Tree') for _, v in r[1]):
                problems.append('late-binding-stale: %s evaluates to %s (Later is int now; "Tree" is a string)' % (nm, r[1]))
        m.Later = str          # rebound
        r = _try(lambda: ev(sigs['f']))
        if r[0] != 'ok' or dict(r[1]).get('x') is not str:
            problems.append('late-binding-stale: after rebinding Later to str the signature retrieved earlier evaluates to %s' % (r,))
        # quoted annotation: eager twin
        e = mod('verif_late_b', 'Later = str\nTree = bytes\n' + src, future=False)
        for nm in ('f', 'g'):
            a = _try(lambda: ev(sigtools.signature(getattr(m, nm))))
            b = _try(lambda: ev(sigtools.signature(getattr(e, nm))))
            if a != b:
                problems.append('twin-differs: %s: postponed module gives %s, eager twin %s' % (nm, a, b))
        # annotations that some library already resolved in place (f.__annotations__ = typing.get_type_hints(f)): objects, not
        # source text, although the function was compiled with the future flag; they denote themselves
        import typing
        r5 = mod('verif_late_c', 'def f(x: int, *args, y: bytes = b"") -> str: return x\n')
        r5.f.__annotations__ = typing.get_type_hints(r5.f)
        for what, get in (('sigtools.signature', lambda: sigtools.signature(r5.f)), ('signatures.signature', lambda: signatures.signature(r5.f)),
                          ('mask', lambda: signatures.mask(signatures.signature(r5.f), 0, 'y'))):
            g = _try(lambda: ev(get()))
            if g[0] != 'ok' or any(v not in (int, bytes, str) for _, v in g[1]):
                problems.append('resolved-in-place: evaluated() of %s of a PEP 563 function whose __annotations__ hold objects -> %s' % (what, g))
        # one annotated contributor, either side
        for order in ((m.f, m.plain), (m.plain, m.f)):
            sg = _try(lambda: ev(signatures.merge(*[signatures.signature(o) for o in order])))
            if sg[0] != 'ok' or dict(sg[1]).get('x') is not str:
                problems.append('merge-one-sided-annotation: merge(%s) evaluates to %s' % (', '.join(o.__name__ for o in order), sg))
    return ('ok', tuple(problems[:8]), 'late_binding')


RT['late_binding'] = rt_late_binding


def rt_copy_eq(req):
    """C14: copies (copy, deepcopy, pickle) of returned parameters and signatures compare equal to the original and hash alike;
    == / != never raise whatever evaluating a postponed annotation raises"""
    import copy, pickle, types, __future__, warnings, inspect
    import sigtools
    problems = []
    with warnings.catch_warnings():
        warnings.simplefilter('ignore')
        def f(a, b=1, *args, c: int = 2, **kwargs) -> str: return a
        sig = sigtools.signature(f)
        objs = [('signature', sig)] + [('parameter ' + p.name, p) for p in sig.parameters.values()]
        for label, o in objs:
            for how, mk in (('copy.copy', copy.copy), ('copy.deepcopy', copy.deepcopy), ('pickle', lambda x: pickle.loads(pickle.dumps(x)))):
                c = _try(lambda: mk(o))
                if c[0] != 'ok':
                    continue            # not every object pickles (provenance holds functions); nothing is claimed then
                eq = _try(lambda: (o == c[1], c[1] == o))
                if eq[0] != 'ok':
                    problems.append('copy-comparison-raises: %s of a %s: %s' % (how, label, eq[1]))
                elif eq[1] == (True, True):
                    h = _try(lambda: (hash(o), hash(c[1])))
                    if h[0] == 'ok' and h[1][0] != h[1][1]:
                        problems.append('copy-hash-differs: the %s of a %s equals it but hashes differently' % (how, label))
                plain = inspect.Parameter(o.name, o.kind, default=o.default, annotation=o.annotation) if label.startswith('parameter') else None
                if plain is not None and c[1] == plain and hash(c[1]) != hash(plain):
                    problems.append('copy-hash-differs: the %s of a %s equals the plain parameter but hashes differently' % (how, label))
        src = ('HANDLERS = {}\nclass Matrix:\n    def __class_getitem__(cls, k): return 1 // k[1]\n'
               'def t(x: int | "Node"): pass\ndef k(x: HANDLERS["json"]): pass\ndef z(x: Matrix[2, 0]): pass\ndef n(x: Missing): pass\n')
        m = types.ModuleType('verif_copyeq')
        exec(compile(src, 'verif_copyeq.py', 'exec', __future__.annotations.compiler_flag, dont_inherit=True), m.__dict__)
        for nm in 'tkzn':
            s1, s2 = sigtools.signature(getattr(m, nm)), sigtools.signature(getattr(m, nm))
            for a, b, what in ((s1, s1, 'sig == sig'), (s1, s2, 'sig == the same retrieved again'), (s1.parameters['x'], s2.parameters['x'], 'parameter == parameter')):
                r = _try(lambda: (a == b, a != b))
                if r[0] != 'ok' or r[1] != (True, False):
                    problems.append('unevaluable-annotation-comparison: %s for `def %s` whose postponed annotation cannot be evaluated -> %s' % (what, nm, r))
    return ('ok', tuple(problems[:6]), 'copy_eq')


RT['copy_eq'] = rt_copy_eq


def rt_dict_unpack(req):
    """C16: a forwarding call that unpacks a mapping owned by the inspected function (an attribute, a global dict) next to
    explicit keywords: retrieval leaves that mapping as it was"""
    import warnings
    import sigtools
    from . import progs
    src = '''
def target(x, y=1, *, mode=None, z=2): return x
DEFAULTS = {'z': 5}
def by_global(*args, **kwargs): return target(*args, mode='g', **DEFAULTS)
def by_attr(*args, **kwargs): return target(*args, mode='a', **by_attr.defaults)
by_attr.defaults = {'z': 6}
class Cfg: pass
def by_vars(*args, **kwargs): return target(*args, mode='v', **by_vars.cfg.__dict__)
by_vars.cfg = Cfg(); by_vars.cfg.z = 7
'''
    mod, fname = progs.load_module(src)
    problems = []
    try:
        snap = lambda: (dict(mod.DEFAULTS), dict(mod.by_attr.defaults), dict(vars(mod.by_vars.cfg)), sorted(vars(mod.by_attr)), sorted(vars(mod.by_vars)))  # noqa
        before = snap()
        with warnings.catch_warnings():
            warnings.simplefilter('ignore')
            for nm in ('by_global', 'by_attr', 'by_vars'):
                _try(lambda: sigtools.signature(getattr(mod, nm)))
        if snap() != before:
            problems.append('inspected-mapping-changed: after retrieval the mappings the forwarding calls unpack are %s, were %s' % (snap()[:3], before[:3]))
    finally:
        progs.unload(fname)
    return ('ok', tuple(problems), 'dict_unpack')


RT['dict_unpack'] = rt_dict_unpack


def rt_hint_history(req):
    """C18: a modifiers-decorated method that FORWARDS its stars (discovery goes through the translator's hint): the bound
    signature does not depend on whether the class-level object was asked first; annotate applied after a first retrieval
    is shown by the next one; a staticmethod below a modifier keeps all its parameters"""
    import warnings, inspect
    import sigtools
    from sigtools import modifiers
    from . import progs
    src = '''
from sigtools import modifiers
def target(a, b=2): return (a, b)
def make():
    class K(object):
        @modifiers.kwoargs('k')
        def m(self, *args, k=None, **kwargs): return target(*args, **kwargs)
        @staticmethod
        @modifiers.posoargs('a')
        def sm(a, b=1): return (a, b)
        @staticmethod
        @modifiers.kwoargs('b')
        def sk(a, b=1): return (a, b)
        @modifiers.posoargs('a')
        @staticmethod
        def so(a, b=1): return (a, b)
        @modifiers.posoargs('self', 'a')
        def pm(self, a, b=1): return (a, b)
    return K
@modifiers.kwoargs('k')
def fn(x, *args, k=None, **kwargs): return target(*args, **kwargs)
@modifiers.kwoargs('k')
def fn2(x, *args, k=None, **kwargs): return target(*args, **kwargs)
'''
    mod, fname = progs.load_module(src)
    problems = []
    try:
        with warnings.catch_warnings():
            warnings.simplefilter('ignore')
            K1, K2 = mod.make(), mod.make()
            first = str(sigtools.signature(K1.m))               # class-level first
            b1 = str(sigtools.signature(K1().m))
            b2 = str(sigtools.signature(K2().m))                # bound only
            if b1 != b2:
                problems.append('history-dependent: bound signature after a class-level retrieval %s, without it %s (class-level: %s)' % (b1, b2, first))
            for nm, want in (('sm', '(a, /, b=1)'), ('sk', '(a, *, b=1)')):
                for holder, hl in ((K1, 'class'), (K1(), 'instance')):
                    r = _try(lambda: str(inspect.signature(getattr(holder, nm))))
                    if r != ('ok', want):
                        problems.append('static-modifier: %s.%s reached through the %s advertises %s, expected %s' % ('K', nm, hl, r, want))
                    c = _try(lambda: getattr(holder, nm)(5))
                    if c != ('ok', (5, 1)):
                        problems.append('static-modifier-call: K.%s(5) through the %s -> %s' % (nm, hl, c))
            inst = K1()
            for what, obj, want, call in (("K.so (posoargs over staticmethod, through the class)", K1.so, '(a, /, b=1)', lambda o: o(5)),
                                          ("K().so", inst.so, '(a, /, b=1)', lambda o: o(5)),
                                          ("K.pm (fetched from the class: nothing is consumed)", K1.pm, '(self, a, /, b=1)', lambda o: o(inst, 5)),
                                          ("K().pm", inst.pm, '(a, /, b=1)', lambda o: o(5))):
                r = _try(lambda: str(inspect.signature(obj)))
                if r != ('ok', want):
                    problems.append('binding-consumes: %s advertises %s, expected %s' % (what, r, want))
                c = _try(lambda: call(obj))
                if c != ('ok', (5, 1)):
                    problems.append('binding-consumes-call: %s called with a=5 -> %s' % (what, c))
                kw = _try(lambda: obj(a=5) if 'K.pm' not in what else obj(inst, a=5))
                if kw[0] != 'raised' or kw[1] != 'TypeError':
                    problems.append('binding-consumes-call: %s accepts a= by name: %s' % (what, kw))
            before = str(sigtools.signature(mod.fn))
            modifiers.annotate(x=int)(mod.fn)
            modifiers.annotate(x=int)(mod.fn2)
            after, fresh = str(sigtools.signature(mod.fn)), str(sigtools.signature(mod.fn2))
            if after != fresh:
                problems.append('annotate-after-retrieval: %s after annotate on a function whose signature had been read (%s), %s on its twin that had not' % (after, before, fresh))
    finally:
        progs.unload(fname)
    return ('ok', tuple(problems[:6]), 'hint_history')


RT['hint_history'] = rt_hint_history

RT['odd_defaults_c07'] = lambda req: rt_odd_defaults(('rt:odd_defaults', 'c07'))
RT['odd_defaults_c12'] = lambda req: rt_odd_defaults(('rt:odd_defaults', 'c12'))
RT['odd_defaults_c20'] = lambda req: rt_odd_defaults(('rt:odd_defaults', 'c20'))


def rt_c13_r8(req):
    """C13: (1) what the wrapped object's own __get__ raises when a decorated descriptor is looked up propagates, as in the
    hand-written composition; (2) two decorating functions that share a name in one module (the name is re-defined) each get
    the signature of their own body: every accepted call runs"""
    import warnings, inspect
    import sigtools
    from sigtools import wrappers
    from . import progs
    src = '''
from sigtools import wrappers
class Desc(object):
    def __call__(self, *args, **kwargs): return ('unbound', args)
    def __get__(self, inst, owner):
        if inst is not None and getattr(inst, 'closed', None) == 'attr': raise AttributeError('closed')
        if inst is not None and getattr(inst, 'closed', None) == 'key': raise KeyError('closed')
        if inst is None: return self
        return lambda *a, **k: ('bound', inst.tag, a)
@wrappers.decorator
def deco(wrapped, *args, **kwargs): return ('w', wrapped(*args, **kwargs))
@wrappers.wrapper_decorator
def wdeco(wrapped, *args, **kwargs): return ('w', wrapped(*args, **kwargs))
class C(object):
    def __init__(self, tag, closed=None): self.tag = tag; self.closed = closed
    m = deco(Desc())
    n = wdeco(Desc())
def hand(inst): return ('w', Desc().__get__(inst, C)())

@wrappers.decorator
def trace(wrapped, level, *args, **kwargs): return ('one', level, wrapped(*args, **kwargs))
@trace
def f1(a, b=1): return (a, b)
@wrappers.decorator
def trace(wrapped, *args, verbose=False, **kwargs): return ('two', verbose, wrapped('conn', *args, **kwargs))
@trace
def f2(conn, a, b=1): return (conn, a, b)
class K(object):
    @trace
    def meth(self, conn, a): return (conn, a)
'''
    mod, fname = progs.load_module(src)
    problems = []
    try:
        with warnings.catch_warnings():
            warnings.simplefilter('ignore')
            for closed in (None, 'attr', 'key'):
                inst = mod.C('t', closed)
                want = _try(lambda: mod.hand(inst))
                for nm in ('m', 'n'):
                    got = _try(lambda: getattr(inst, nm)())
                    if got != want:
                        problems.append("descriptor-get: C(closed=%r).%s() -> %s, the hand-written composition -> %s" % (closed, nm, got, want))
            shapes = [((1,), {}), ((1, 2), {}), ((1, 2, 3), {}), ((), {'a': 1}), ((1,), {'verbose': True}), ((1,), {'level': 0}), ((0, 1), {'b': 2})]
            for order in (('f1', 'f2', 'meth'), ('meth', 'f2', 'f1')):
                for nm in order:
                    fobj = getattr(mod, nm) if nm != 'meth' else mod.K().meth
                    for getter, gl in ((sigtools.signature, 'sigtools.signature'), (inspect.signature, 'inspect.signature')):
                        sig = getter(fobj)
                        for a, k in shapes:
                            try:
                                sig.bind(*a, **k)
                            except TypeError:
                                continue
                            try:
                                fobj(*a, **k)
                            except TypeError as e:
                                problems.append('same-name-decorators: %s(%s) = %s accepts %s %s but the call raises TypeError: %s' % (gl, nm, sig, a, k, str(e)[:70]))
                                break
    finally:
        progs.unload(fname)
    return ('ok', tuple(problems[:6]), 'c13_r8')


RT['c13_r8'] = rt_c13_r8


_REBIND_SRC = '''
def callee(x, y=1, *, z=2): return x
def except_as(*args, **kwargs):
    try:
        raise ValueError
    except ValueError as kwargs:
        kwargs = {}
    return callee(*args, **kwargs)
def import_as(*args, **kwargs):
    import collections as kwargs
    return callee(*args, **kwargs)
def import_plain(*args, **kwargs):
    import kwargs
    return callee(*args, **kwargs)
def match_as(*args, **kwargs):
    match {}:
        case kwargs:
            pass
    return callee(*args, **kwargs)
def match_rest(*args, **kwargs):
    match {'q': 1}:
        case {**kwargs}:
            pass
    return callee(*args, **kwargs)
def match_star(*args, **kwargs):
    match [1, 2]:
        case [*args]:
            pass
    return callee(*args, **kwargs)
def class_named(*args, **kwargs):
    class kwargs(dict):
        pass
    return callee(*args, **kwargs)
def def_named(*args, **kwargs):
    def kwargs(): pass
    return callee(*args, **kwargs)
def def_shadow(*args, **kwargs):
    def callee(q): return q
    return callee(*args, **kwargs)
def def_shadow_attr(*args, **kwargs):
    def callee(q): return q
    callee.attr = callee
    return callee.attr(*args, **kwargs)
def untouched(*args, **kwargs):
    def helper(q): return q
    helper(1)
    import collections
    try:
        pass
    except ValueError as e:
        pass
    match {}:
        case other:
            pass
    class Local(object):
        pass
    return callee(*args, **kwargs)
'''


def rt_rebinding_forms(req):
    """C05, last sentence: *args / **kwargs rebound by a binding form that is not an assignment (`except … as`, `import … as`,
    `case name`, `case {**name}`, `case [*name]`, `class name`): the callee's corresponding parameters are not advertised;
    the same forms binding OTHER names change nothing"""
    import warnings
    import sigtools
    from sigtools import signatures
    from . import progs
    mod, fname = progs.load_module(_REBIND_SRC)
    problems = []
    try:
        with warnings.catch_warnings():
            warnings.simplefilter('ignore')
            for nm, star in (('except_as', 'K'), ('import_as', 'K'), ('import_plain', 'K'), ('match_as', 'K'), ('match_rest', 'K'),
                             ('match_star', 'A'), ('class_named', 'K'), ('def_named', 'K')):
                f = getattr(mod, nm)
                sig = sigtools.signature(f)
                if str(sig) == str(signatures.signature(f)):
                    continue
                names = list(sig.parameters)
                bad = [n for n in names if n in (('z',) if star == 'K' else ('x', 'y'))]
                if star == 'K' and any(sig.parameters[n].kind.name in ('POSITIONAL_OR_KEYWORD', 'KEYWORD_ONLY') for n in names if n in ('x', 'y', 'z')):
                    bad = [n for n in names if n in ('x', 'y', 'z') and sig.parameters[n].kind.name in ('POSITIONAL_OR_KEYWORD', 'KEYWORD_ONLY')]
                if bad:
                    problems.append('rebound-star-advertised: %s rebinds %s by a non-assignment binding form, yet sigtools.signature = %s advertises %s of the callee' % (
                        nm, '**kwargs' if star == 'K' else '*args', sig, bad))
            for nm in ('def_shadow', 'def_shadow_attr'):
                f = getattr(mod, nm)
                sig = sigtools.signature(f)
                if str(sig) != str(signatures.signature(f)):
                    problems.append('shadowed-callee-advertised: %s defines a nested function named like the module-level callee and forwards to THAT, yet sigtools.signature = %s (the module-level callee was examined)' % (nm, sig))
            if str(sigtools.signature(mod.untouched)) != '(x, y=1, *, z=2)':
                problems.append('binding-forms-of-other-names: sigtools.signature(untouched) = %s' % sigtools.signature(mod.untouched))
    finally:
        progs.unload(fname)
    return ('ok', tuple(problems[:8]), 'rebinding_forms')


RT['rebinding_forms'] = rt_rebinding_forms


# ----------------------------------------------------------------------------- str.split(',') + re_paramname vs Model/ReadSigText.lean
def _text_line(t):
    return '.'.join(str(ord(c)) for c in t) or '_'


def real_resplit(req):
    from sigtools import support
    text = req[1]
    out = []
    for part in text.split(','):
        if not part:
            continue
        m = support.re_paramname.match(part)
        out.append(None if m is None else m.groups())
    return ('ok', tuple(out))


OPS['resplit'] = real_resplit

_line0 = line
_parse0 = parse_model


def line(req):        # noqa: F811
    if req[0] == 'resplit':
        return 'resplit ' + _text_line(req[1])
    return _line0(req)


def parse_model(req, ml):      # noqa: F811
    if req[0] == 'resplit':
        toks = ml.split()
        dec = lambda s: None if s == '-' else ('' if s == 'e' else ''.join(chr(int(x)) for x in s.split('.')))  # noqa
        out = []
        if len(toks) > 1 and toks[1] != '_':
            for part in toks[1].split(','):
                if part == 'N':
                    out.append(None)
                else:
                    n, a, d = part.split('|')
                    out.append((dec(n), dec(a), dec(d)))
        return ('ok', tuple(out))
    return _parse0(req, ml)


# ----------------------------------------------------------------------------- read_sig from the TEXT vs Model/ReadSigText.readSigText
_BASE = 1114112


def enc_text(t):
    n = 0
    for c in t:
        n = n * _BASE + ord(c) + 1
    return n


def dec_text(n):
    out = []
    while n:
        n, r = divmod(n, _BASE)
        out.append(chr(r - 1))
    return ''.join(reversed(out))


def _outside_piece_model(text):
    """the texts the piece-level model does not cover (Model/ReadSigText.toPiece answers none): three or more stars, an annotation
    or default on `/` or a bare `*`, `<…>` around `/` or a star argument"""
    from sigtools import support
    for part in text.split(','):
        if not part:
            continue
        m = support.re_paramname.match(part)
        if m is None:
            return True
        arg, ann, dflt = m.groups()
        ch = support.re_posoarg.match(arg)
        if ch:
            inner = ch.group(1)
            if inner == '/' or inner.startswith('*'):
                return True
            continue
        if arg == '/':
            if ann is not None or dflt is not None:
                return True
            continue
        name = arg.lstrip('*')
        k = len(arg) - len(name)
        if k and not name and (ann is not None or dflt is not None):
            return True
        if name and k >= 3:
            return True
    return False


def real_readsigtext(req):
    from sigtools import support
    _, ua, upo, ukw, text = req
    if _outside_piece_model(text):
        return ('outside',)
    try:
        names, ret, anns, poso, kwo, params, flag = support.read_sig(
            text, use_modifiers_annotate=bool(ua), use_modifiers_posoargs=bool(upo), use_modifiers_kwoargs=bool(ukw))
    except Exception as e:  # noqa
        return ('err', type(e).__name__)
    return ('ok', tuple(names), tuple(anns.items()), tuple(poso), tuple(kwo), params)


OPS['readsigtext'] = real_readsigtext

_line1 = line
_parse1 = parse_model


def line(req):        # noqa: F811
    if req[0] == 'readsigtext':
        return 'readsigtext %d %d %d %s' % (req[1], req[2], req[3], _text_line(req[4]))
    return _line1(req)


def parse_model(req, ml):      # noqa: F811
    if req[0] == 'readsigtext':
        toks = ml.split()
        if toks[0] == 'outside':
            return ('outside',)
        ids = lambda s: () if s == '_' else tuple(dec_text(int(x)) for x in s.split('.'))  # noqa
        anns = () if toks[2] == '_' else tuple(tuple(dec_text(int(y)) for y in x.split('=')) for x in toks[2].split('.'))
        items = []
        if toks[5] != '_':
            for it in toks[5].split(','):
                if it in ('/', '*'):
                    items.append(it)
                else:
                    s, n, a, d = it.split(':')
                    t = '*' * int(s) + dec_text(int(n))
                    if a != '-':
                        t += ': ' + dec_text(int(a))
                    if d != '-':
                        t += '=' + dec_text(int(d))
                    items.append(t)
        return ('ok', ids(toks[1]), anns, ids(toks[3]), ids(toks[4]), ', '.join(items))
    return _parse1(req, ml)
