"""harness/real_r8.py — adapters added in session 8: the string layer of sigtools.support vs Model/ReadSig.lean

requests
  ('readsig', ua, upo, ukw, pieces)   support.read_sig on the text of the pieces  (names, annotations, posoarg_n, kwoarg_n, params)
  ('stext',   ua, upo, ukw, pieces)   the parameters of support.s(text, …)        (or the exception class)
  ('pieces',  params)                 str(inspect.Signature(params)) vs the text of the model's `pieces`

a piece is ('S',) | ('B',) | (tag, name, ann, dflt) with tag in c / s1 / s2 / p; annotation tokens are written as integer
literals, default tokens as the repr of the default object (0 = None).
"""
import inspect
import warnings
import zlib

from . import core

OPS = {}


def piece_text(pc):
    if pc[0] == 'S':
        return '/'
    if pc[0] == 'B':
        return '*'
    tag, n, a, d = pc
    t = {'c': '<%s>', 's1': '*%s', 's2': '**%s', 'p': '%s'}[tag] % n
    if a is not None:
        t += ':%d' % a
    if d is not None:
        t += '=%s' % ('None' if d == 0 else str(d))
    return t


def text_of(pcs, sep=', '):
    return sep.join(piece_text(p) for p in pcs)


def piece_line(pc):
    if pc[0] in ('S', 'B'):
        return pc[0]
    tag, n, a, d = pc
    return '%s:%d:%s:%s' % (tag, core.NAMES.id(n), '-' if a is None else a, '-' if d is None else d)


def line(req):
    op = req[0]
    if op in ('readsig', 'stext'):
        _, ua, upo, ukw, pcs = req
        return '%s %d %d %d %s' % (op, ua, upo, ukw, ','.join(piece_line(p) for p in pcs) or '_')
    if op == 'pieces':
        return 'pieces %s' % core.params_line(req[1])
    raise core.HarnessError(op)


def _sep(req):
    return (', ', ',', ',  ')[zlib.crc32(repr(req).encode()) % 3]


def _item_text(stars, n, a, d):
    t = '*' * stars + core.NAMES.name(n)
    if a is not None:
        t += ': %d' % a
    if d is not None:
        t += '=%s' % ('None' if d == 0 else str(d))
    return t


def parse_model(req, ml):
    toks = ml.split()
    op = req[0]
    if op == 'readsig':
        ids = lambda s: () if s == '_' else tuple(int(x) for x in s.split('.'))  # noqa
        anns = () if toks[2] == '_' else tuple(tuple(int(y) for y in x.split('=')) for x in toks[2].split('.'))
        items = []
        if toks[5] != '_':
            for it in toks[5].split(','):
                if it in ('/', '*'):
                    items.append(it)
                else:
                    s, n, a, d = it.split(':')
                    items.append(_item_text(int(s), int(n), None if a == '-' else int(a), None if d == '-' else int(d)))
        return ('ok', ids(toks[1]), anns, ids(toks[3]), ids(toks[4]), ', '.join(items))
    if op == 'stext':
        if toks[0] == 'err':
            return ('err', toks[1])
        ps = []
        if toks[1] != '_':
            for q in toks[1].split(','):
                n, k, df, an, ua = q.split(':')
                ps.append((int(n), k, None if df == '-' else int(df), None if an == '-' else int(an)))
        return ('ok', tuple(ps))
    if op == 'pieces':
        pcs = []
        if toks[1] != '_':
            for it in toks[1].split(','):
                t = it.split(':')
                if t[0] in ('S', 'B'):
                    pcs.append((t[0],))
                else:
                    pcs.append((t[0], core.NAMES.name(int(t[1])), None if t[2] == '-' else int(t[2]), None if t[3] == '-' else int(t[3])))
        return ('ok', text_of(pcs).replace(' ', ''))
    raise core.HarnessError(op)


def real_readsig(req):
    from sigtools import support
    _, ua, upo, ukw, pcs = req
    text = text_of(pcs, _sep(req))
    try:
        names, ret, anns, poso, kwo, params, flag = support.read_sig(
            text, use_modifiers_annotate=bool(ua), use_modifiers_posoargs=bool(upo), use_modifiers_kwoargs=bool(ukw))
    except Exception as e:  # noqa
        return ('err', type(e).__name__)
    I = core.NAMES.id  # noqa
    norm = ', '.join(' '.join(x.split()) for x in params.split(', ')) if params else ''
    return ('ok', tuple(I(n) for n in names), tuple((I(k), int(v)) for k, v in anns.items()), tuple(I(n) for n in poso),
            tuple(I(n) for n in kwo), norm)


OPS['readsig'] = real_readsig


def real_stext(req):
    from sigtools import support
    _, ua, upo, ukw, pcs = req
    text = text_of(pcs, _sep(req))
    try:
        with warnings.catch_warnings():
            warnings.simplefilter('ignore')
            sig = support.s(text, use_modifiers_annotate=bool(ua), use_modifiers_posoargs=bool(upo), use_modifiers_kwoargs=bool(ukw))
    except Exception as e:  # noqa
        return ('err', type(e).__name__)
    out = []
    for p in sig.parameters.values():
        d = None if p.default is p.empty else (0 if p.default is None else int(p.default))
        a = None if p.annotation is p.empty else int(p.annotation)
        out.append((core.NAMES.id(p.name), core.KIND_NAME[p.kind], d, a))
    return ('ok', tuple(out))


OPS['stext'] = real_stext


def real_pieces(req):
    ps = req[1]
    params = [inspect.Parameter(p[0], core.KINDS[p[1]], default=inspect.Parameter.empty if p[2] is None else (None if p[2] == 0 else p[2]),
                                annotation=inspect.Parameter.empty if p[3] is None else p[3]) for p in ps]
    return ('ok', str(inspect.Signature(params))[1:-1].replace(' ', ''))


OPS['pieces'] = real_pieces


# ----------------------------------------------------------------------------- runtime probes (session 8)
RT = {}

ADV3_SOURCES = '''
import functools
from sigtools import specifiers, modifiers
def g(a, b=1, *, c=2): return a
class Base: pass
class Sub(Base):
    @specifiers.forwards_to_super()
    def m(self, *args, **kwargs): return super().m(*args, **kwargs)
    def via(self, *args, **kwargs): return self.m(*args, **kwargs)
sub_inst = Sub()
def gen():
    yield 1
    raise RuntimeError('boom')
ITEMS = gen()
def unpack_gen(**kwargs): return g(*ITEMS, **kwargs)
COUNTER = iter([1, 2, 3])
def unpack_iter(**kwargs): return g(*COUNTER, **kwargs)
class Pairs:
    # a mapping-like object that is not a dict: unpacking it runs its code
    calls = 0
    def keys(self): Pairs.calls += 1; return ['c']
    def __getitem__(self, k): Pairs.calls += 1; return 5
PAIRS = Pairs()
def unpack_pairs(*args): return g(*args, **PAIRS)
TUP = (7,)
def unpack_tuple(**kwargs): return g(*TUP, **kwargs)
class FalsyCallable:
    def __len__(self): return 0
    def __call__(self, a: int, b: 'str' = '') -> str: return b
class TruthyCallable:
    def __call__(self, a: int, b: 'str' = '') -> str: return b
falsy = FalsyCallable()
truthy = TruthyCallable()
class NE:
    def __ne__(self, o): raise TypeError('no compare')
    def __eq__(self, o): raise TypeError('no compare')
    __hash__ = object.__hash__
    def __repr__(self): return 'NE()'
def ne_ret(a) -> NE(): return a
%s
OBJECTS = [sub_inst.via, unpack_gen, unpack_iter, unpack_pairs, unpack_tuple, falsy, truthy, ne_ret, chain_40, chain_250, chain_400]
DECLARED = [sub_inst.m]
HOOK = ['ne_ret', 'g']
''' % '\n'.join(['def chain_0(a, b=1): return a'] +
                ['def chain_%d(*args, **kwargs): return chain_%d(*args, **kwargs)' % (i, i - 1) for i in range(1, 401)])


def rt_adversarial3(req):
    """C07 on the callables of session 8 (forwards_to_super without a method further up, forwarding calls that unpack known
    iterators / mapping-likes, a callable object that is falsy, an annotation that cannot be compared, long chains of
    forwarding functions): the outcome rules of adversarial2, plus: known iterators are not used up, no code of unpacked
    objects is run, the falsy object answers like its truthy twin (also under warnings-as-errors)"""
    import sys as _sys, warnings, inspect
    import sigtools
    from sigtools import specifiers, signatures, sphinxext
    from . import progs, real_r7
    mod, fname = progs.load_module(ADV3_SOURCES)
    problems = []
    try:
        for declared, objs in ((False, mod.OBJECTS), (True, mod.DECLARED)):
            for obj in objs:
                what = getattr(obj, '__qualname__', None) or type(obj).__name__
                insp = real_r7._outcome(inspect.signature, obj)
                for name, fn in (('sigtools.signature', sigtools.signature),
                                 ('signature(auto=False)', lambda o: specifiers.signature(o, auto=False)),
                                 ('signatures.signature', signatures.signature)):
                    o = real_r7._outcome(fn, obj)
                    if o[0] == 'hangs':
                        problems.append('retrieval-hangs: %s(%s)' % (name, what))
                    elif insp[0] == 'ok' and o[0] != 'ok':
                        if declared and o[1] == 'ValueError':
                            continue
                        problems.append('retrieval-raises: %s(%s) raised %s although inspect.signature succeeds' % (name, what, o[1]))
                    elif insp[0] == 'raised' and o[0] == 'raised' and o[1] != insp[1]:
                        problems.append('different-exception: %s(%s) raised %s, inspect.signature raised %s' % (name, what, o[1], insp[1]))
        # what discovery may not do to the objects it meets
        if next(mod.COUNTER, None) != 1:
            problems.append('retrieval-consumes-iterator: after retrieving the signature of unpack_iter the module-level iterator it unpacks has been advanced')
        if mod.Pairs.calls:
            problems.append('retrieval-runs-unpacked-object: retrieving the signature of unpack_pairs called the methods of the mapping-like it unpacks %d times' % mod.Pairs.calls)
        # the tuple IS followed (a plain sequence)
        with warnings.catch_warnings():
            warnings.simplefilter('ignore')
            if str(sigtools.signature(mod.unpack_tuple)) != '(*, c=2)':      # a star argument that is not the function's own hides the positional parameters
                problems.append('known-tuple-not-followed: sigtools.signature(unpack_tuple) = %s' % sigtools.signature(mod.unpack_tuple))
        # falsy vs truthy twin, warnings as errors
        for name, fn in (('sigtools.signature', sigtools.signature), ('signatures.signature', signatures.signature)):
            outs = []
            for o in (mod.falsy, mod.truthy):
                try:
                    with warnings.catch_warnings():
                        warnings.simplefilter('error')
                        sg = fn(o)
                        outs.append((str(sg), str(sg.evaluated())))
                except BaseException as e:  # noqa
                    outs.append(('raised', type(e).__name__))
            if outs[0] != outs[1]:
                problems.append('falsy-callable-differs: %s of a callable object whose truth value is false gives %s, of its truthy twin %s' % (name, outs[0], outs[1]))
        # a long chain: the answer is the chain's end or the plain signature, never an exception
        for nm in ('chain_40', 'chain_250', 'chain_400'):
            o = real_r7._outcome(sigtools.signature, getattr(mod, nm), secs=60)
            if o[0] == 'ok' and str(o[2]) not in ('(a, b=1)', '(*args, **kwargs)'):
                problems.append('chain-answer: sigtools.signature(%s) = %s' % (nm, o[2]))
        _sys.modules[mod.__name__] = mod
        try:
            for dotted in mod.HOOK:
                want_sig = inspect.signature(getattr(mod, dotted))
                want = (str(want_sig.replace(return_annotation=want_sig.empty)),
                        '' if want_sig.return_annotation is want_sig.empty else repr(want_sig.return_annotation))
                try:
                    with warnings.catch_warnings():
                        warnings.simplefilter('ignore')
                        r = sphinxext.process_signature(None, 'function', mod.__name__ + '.' + dotted, None, None, '(PASSED)', 'RET')
                except BaseException as e:  # noqa
                    problems.append('sphinx-hook-raises: process_signature(%s) raised %s: %s' % (dotted, type(e).__name__, str(e)[:80]))
                    continue
                if r != want:
                    problems.append('sphinx-hook-strings: process_signature(%s) returned %r; expected %r' % (dotted, r, want))
        finally:
            _sys.modules.pop(mod.__name__, None)
    finally:
        progs.unload(fname)
    return ("ok", tuple(problems[:14]), "adversarial3")


RT['adversarial3'] = rt_adversarial3

_COLZERO = '''
def g(x, y, *, z): return x
class A:
    def method(self, *args, **kwargs):
        s = """
column zero text
"""
        return g(*args, **kwargs)

    def method2(self, *args, **kwargs):
# comment at column zero
        return g(*args, **kwargs)

    def method3(self, a, *args, **kwargs):
        if a:
  # a comment less indented than the def
            return g(a, *args, **kwargs)
        return g(*args, **kwargs)

    def twin(self, *args, **kwargs):
        return g(*args, **kwargs)

    def twin3(self, a, *args, **kwargs):
        if a:
            return g(a, *args, **kwargs)
        return g(*args, **kwargs)
def outer():
    def inner(*args, **kwargs):
        t = """
zero
"""
        return g(*args, **kwargs)
    def inner_twin(*args, **kwargs):
        return g(*args, **kwargs)
    return inner, inner_twin
'''


def rt_column_zero(req):
    """C06 (unrelated statements / statement context): text to the left of an indented def — the inside of a multi-line string,
    a comment at column zero — does not change what is discovered: same signature and provenance shape as the twin without it"""
    import warnings
    import sigtools
    from . import progs
    mod, fname = progs.load_module(_COLZERO)
    problems = []
    try:
        a = mod.A()
        inner, inner_twin = mod.outer()
        for nm, f, twin in (('A.method (string content at column zero)', a.method, a.twin),
                            ('A.method2 (comment at column zero)', a.method2, a.twin),
                            ('A.method3 (comment left of the def)', a.method3, a.twin3),
                            ('outer.inner (string content at column zero)', inner, inner_twin)):
            with warnings.catch_warnings():
                warnings.simplefilter('ignore')
                try:
                    got, want = sigtools.signature(f), sigtools.signature(twin)
                except BaseException as e:  # noqa
                    problems.append('column-zero-raises: %s: %s' % (nm, type(e).__name__))
                    continue
            if str(got) != str(want) or sorted(k for k in got.sources if k != '+depths') != sorted(k for k in want.sources if k != '+depths'):
                problems.append('irrelevant-text-changes-discovery: sigtools.signature(%s) = %s, of its twin without that text %s' % (nm, got, want))
    finally:
        progs.unload(fname)
    return ('ok', tuple(problems[:4]), 'column_zero')


RT['column_zero'] = rt_column_zero
