"""harness/real_r8.py — adapters added in session 8: the string layer of sigtools.support vs Model/ReadSig.lean

requests
  ('readsig', ua, upo, ukw, pieces)   support.read_sig on the text of the pieces  (names, annotations, posoarg_n, kwoarg_n, params)
  ('stext',   ua, upo, ukw, pieces)   the parameters of support.s(text, …)        (or the exception class)
  ('pieces',  params)                 str(inspect.Signature(params)) vs the text of the model's `pieces`

a piece is ('S',) | ('B',) | (tag, name, ann, dflt) with tag in c / s1 / s2 / p; annotation tokens are written as integer
literals, default tokens as the repr of the default object (0 = None).
"""
import inspect
import warnings
import zlib

from . import core

OPS = {}


def piece_text(pc):
    if pc[0] == 'S':
        return '/'
    if pc[0] == 'B':
        return '*'
    tag, n, a, d = pc
    t = {'c': '<%s>', 's1': '*%s', 's2': '**%s', 'p': '%s'}[tag] % n
    if a is not None:
        t += ':%d' % a
    if d is not None:
        t += '=%s' % ('None' if d == 0 else str(d))
    return t


def text_of(pcs, sep=', '):
    return sep.join(piece_text(p) for p in pcs)


def piece_line(pc):
    if pc[0] in ('S', 'B'):
        return pc[0]
    tag, n, a, d = pc
    return '%s:%d:%s:%s' % (tag, core.NAMES.id(n), '-' if a is None else a, '-' if d is None else d)


def line(req):
    op = req[0]
    if op in ('readsig', 'stext'):
        _, ua, upo, ukw, pcs = req
        return '%s %d %d %d %s' % (op, ua, upo, ukw, ','.join(piece_line(p) for p in pcs) or '_')
    if op == 'pieces':
        return 'pieces %s' % core.params_line(req[1])
    raise core.HarnessError(op)


def _sep(req):
    return (', ', ',', ',  ')[zlib.crc32(repr(req).encode()) % 3]


def _item_text(stars, n, a, d):
    t = '*' * stars + core.NAMES.name(n)
    if a is not None:
        t += ': %d' % a
    if d is not None:
        t += '=%s' % ('None' if d == 0 else str(d))
    return t


def parse_model(req, ml):
    toks = ml.split()
    op = req[0]
    if op == 'readsig':
        ids = lambda s: () if s == '_' else tuple(int(x) for x in s.split('.'))  # noqa
        anns = () if toks[2] == '_' else tuple(tuple(int(y) for y in x.split('=')) for x in toks[2].split('.'))
        items = []
        if toks[5] != '_':
            for it in toks[5].split(','):
                if it in ('/', '*'):
                    items.append(it)
                else:
                    s, n, a, d = it.split(':')
                    items.append(_item_text(int(s), int(n), None if a == '-' else int(a), None if d == '-' else int(d)))
        return ('ok', ids(toks[1]), anns, ids(toks[3]), ids(toks[4]), ', '.join(items))
    if op == 'stext':
        if toks[0] == 'err':
            return ('err', toks[1])
        ps = []
        if toks[1] != '_':
            for q in toks[1].split(','):
                n, k, df, an, ua = q.split(':')
                ps.append((int(n), k, None if df == '-' else int(df), None if an == '-' else int(an)))
        return ('ok', tuple(ps))
    if op == 'pieces':
        pcs = []
        if toks[1] != '_':
            for it in toks[1].split(','):
                t = it.split(':')
                if t[0] in ('S', 'B'):
                    pcs.append((t[0],))
                else:
                    pcs.append((t[0], core.NAMES.name(int(t[1])), None if t[2] == '-' else int(t[2]), None if t[3] == '-' else int(t[3])))
        return ('ok', text_of(pcs).replace(' ', ''))
    raise core.HarnessError(op)


def real_readsig(req):
    from sigtools import support
    _, ua, upo, ukw, pcs = req
    text = text_of(pcs, _sep(req))
    try:
        names, ret, anns, poso, kwo, params, flag = support.read_sig(
            text, use_modifiers_annotate=bool(ua), use_modifiers_posoargs=bool(upo), use_modifiers_kwoargs=bool(ukw))
    except Exception as e:  # noqa
        return ('err', type(e).__name__)
    I = core.NAMES.id  # noqa
    norm = ', '.join(' '.join(x.split()) for x in params.split(', ')) if params else ''
    return ('ok', tuple(I(n) for n in names), tuple((I(k), int(v)) for k, v in anns.items()), tuple(I(n) for n in poso),
            tuple(I(n) for n in kwo), norm)


OPS['readsig'] = real_readsig


def real_stext(req):
    from sigtools import support
    _, ua, upo, ukw, pcs = req
    text = text_of(pcs, _sep(req))
    try:
        with warnings.catch_warnings():
            warnings.simplefilter('ignore')
            sig = support.s(text, use_modifiers_annotate=bool(ua), use_modifiers_posoargs=bool(upo), use_modifiers_kwoargs=bool(ukw))
    except Exception as e:  # noqa
        return ('err', type(e).__name__)
    out = []
    for p in sig.parameters.values():
        d = None if p.default is p.empty else (0 if p.default is None else int(p.default))
        a = None if p.annotation is p.empty else int(p.annotation)
        out.append((core.NAMES.id(p.name), core.KIND_NAME[p.kind], d, a))
    return ('ok', tuple(out))


OPS['stext'] = real_stext


def real_pieces(req):
    ps = req[1]
    params = [inspect.Parameter(p[0], core.KINDS[p[1]], default=inspect.Parameter.empty if p[2] is None else (None if p[2] == 0 else p[2]),
                                annotation=inspect.Parameter.empty if p[3] is None else p[3]) for p in ps]
    return ('ok', str(inspect.Signature(params))[1:-1].replace(' ', ''))


OPS['pieces'] = real_pieces
