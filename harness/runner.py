"""harness/runner.py — what `./check Cxx` does.

1. proof obligations: `lake build` + axiom audit of the theorems registered for Cxx
2. correspondence: real sigtools (from /repo's working tree) vs the Lean model's executable
   definitions on the same requests, under the property's projection
3. the property's executable oracle on the real code (failing-input search)
4. classification -> VIOLATION / KNOWN-FINDING lines, replay files, evidence JSON
"""
import os, sys, json, time, subprocess, re, hashlib, fcntl, traceback, shutil
from . import core

VERIF = core.VERIF
LEAN = os.path.join(VERIF, 'lean')
# VERIF_EVIDENCE_DIR: used only by tools/seedtest.py so that runs against seeded scratch trees never overwrite the real evidence
EVID = os.environ.get('VERIF_EVIDENCE_DIR') or os.path.join(VERIF, 'evidence')
REPLAYS = os.path.join(EVID, 'replays')
ALLOWED_AXIOMS = {'propext', 'Classical.choice', 'Quot.sound'}
FORBIDDEN = re.compile(r'\bsorry\b|\badmit\b|^axiom\s|native_decide|bv_decide|implemented_by|\bunsafe\s|maxHeartbeats\s+0\b', re.M)


def log(*a):
    print(*a, file=sys.stderr, flush=True)


# ----------------------------------------------------------------------------- lean
def strip_lean_comments(src):
    out = []
    i, n, depth = 0, len(src), 0
    while i < n:
        if src.startswith('/-', i):
            depth += 1
            i += 2
        elif depth and src.startswith('-/', i):
            depth -= 1
            i += 2
        elif depth:
            i += 1
        elif src.startswith('--', i):
            j = src.find('\n', i)
            i = n if j < 0 else j
        else:
            out.append(src[i])
            i += 1
    return ''.join(out)


def lean_sources():
    out = []
    for root, dirs, files in os.walk(LEAN):
        dirs[:] = [d for d in dirs if d not in ('.lake',)]
        for f in files:
            if f.endswith('.lean'):
                out.append(os.path.join(root, f))
    return sorted(out)


def lake_build():
    """returns (ok, output). Serialised with a lock so that concurrent checks do not race."""
    os.makedirs(os.path.join(LEAN, '.lake'), exist_ok=True)
    with open(os.path.join(LEAN, '.lake', 'verif.lock'), 'w') as lk:
        fcntl.flock(lk, fcntl.LOCK_EX)
        r = subprocess.run(['lake', 'build'], cwd=LEAN, capture_output=True, text=True)
    return r.returncode == 0, (r.stdout + r.stderr)


def theorems_for(prop):
    with open(os.path.join(LEAN, 'theorems.json')) as f:
        reg = json.load(f)
    return reg.get(prop, [])


def audit(prop, thms):
    """`#print axioms` for each registered theorem.  returns list of dict(name, ok, axioms, note)"""
    if not thms:
        return []
    mods = sorted({t['module'] for t in thms})
    src = ''.join('import %s\n' % m for m in mods) + ''.join('#print axioms %s\n' % t['name'] for t in thms)
    path = os.path.join(LEAN, '.lake', 'audit_%s_%d.lean' % (prop, os.getpid()))
    with open(path, 'w') as f:
        f.write(src)
    try:
        r = subprocess.run(['lake', 'env', 'lean', path], cwd=LEAN, capture_output=True, text=True)
    finally:
        try:
            os.remove(path)
        except OSError:
            pass
    out = r.stdout + r.stderr
    res = []
    for t in thms:
        name = t['name']
        m = re.search(r"'%s' depends on axioms: \[([^\]]*)\]" % re.escape(name), out)
        m0 = re.search(r"'%s' does not depend on any axioms" % re.escape(name), out)
        if m:
            ax = [a.strip() for a in m.group(1).replace('\n', ' ').split(',') if a.strip()]
            bad = [a for a in ax if a not in ALLOWED_AXIOMS]
            res.append(dict(name=name, ok=not bad, axioms=ax, note=('disallowed axioms: %s' % bad) if bad else ''))
        elif m0:
            res.append(dict(name=name, ok=True, axioms=[], note=''))
        else:
            err = [l for l in out.splitlines() if name.split('.')[-1] in l or 'error' in l][:3]
            res.append(dict(name=name, ok=False, axioms=[], note='not found / does not compile: ' + ' | '.join(err)))
    return res


def forbidden_tokens():
    hits = []
    for p in lean_sources():
        with open(p) as f:
            body = strip_lean_comments(f.read())
        for m in FORBIDDEN.finditer(body):
            hits.append('%s: %s' % (os.path.relpath(p, LEAN), m.group(0).strip()))
    return hits


# ----------------------------------------------------------------------------- findings
def load_findings():
    p = os.path.join(VERIF, 'known_findings.json')
    if not os.path.exists(p):
        return []
    with open(p) as f:
        return json.load(f).get('findings', [])


def finding_for(prop, failure_text, findings):
    from . import findings as F
    for fd in findings:
        if fd.get('status') != 'open' or fd['property'] != prop:
            continue
        if F.matches(fd, failure_text):
            return fd
    return None


# ----------------------------------------------------------------------------- main
def write_replay(prop, kind, payload):
    os.makedirs(REPLAYS, exist_ok=True)
    h = hashlib.sha256(json.dumps(payload, sort_keys=True, default=repr).encode()).hexdigest()[:12]
    path = os.path.join(REPLAYS, '%s-%s-%s.json' % (prop, kind, h))
    payload = dict(payload, property=prop, kind=kind, tree_hashes=core.tree_hashes(),
                   how_to_replay='cd /verif && ./check %s --replay %s' % (prop, os.path.relpath(path, VERIF)))
    with open(path, 'w') as f:
        json.dump(payload, f, indent=1, default=repr)
    return path


def run_check(prop, tier, seed, extra=None):
    from . import props, engine
    t0 = time.time()
    cfg = props.PROPS[prop]
    violations = []     # (replay path, suffix)
    known = []
    notes = []

    # 1. proof obligations
    ok_build, build_out = lake_build()
    thms = theorems_for(prop)
    if ok_build:
        aud = audit(prop, thms)
    else:
        aud = [dict(name=t['name'], ok=False, axioms=[], note='lake build failed') for t in thms]
        notes.append('lake build failed:\n' + build_out[-2000:])
        log(build_out[-3000:])
    forb = forbidden_tokens()
    obligations = len(thms)
    discharged = sum(1 for a in aud if a['ok']) if not forb else 0
    proof_broken = [a for a in aud if not a['ok']]
    if forb:
        notes.append('forbidden tokens in Lean sources: %s' % forb[:5])
    if not ok_build and not os.path.exists(core.DRIVER):
        print('ERROR: Lean build failed and no driver binary exists; cannot run the correspondence', flush=True)
        log(build_out[-3000:])
        return 2

    # 2+3. correspondence and oracle
    stream_stats = []
    all_mismatches = []
    all_oracle = []
    total = 0
    distinct = 0
    counters = {}
    samples = []
    streams_cfg = cfg['quick'] if tier == 'quick' else cfg.get('thorough', cfg['quick'])
    # how long one stream may take before its workers are taken for hung (engine.run_stream): far above what any stream
    # needs on a loaded machine (quick streams take under a minute, thorough ones a few minutes)
    os.environ.setdefault('VERIF_STREAM_TIMEOUT', '900' if tier == 'quick' else '5400')
    runner = cfg.get('runner')
    if runner:
        # property with its own machinery (state machines, programs, ...): returns the same kind of record
        from . import special
        rec = getattr(special, runner)(prop, tier, seed)
        stream_stats = rec['streams']
        all_mismatches = rec['mismatches']
        all_oracle = rec['oracle_failures']
        total = rec['evaluations']
        distinct = rec['distinct']
        counters = rec.get('counters', {})
        samples = rec.get('samples', [])
    for (sname, kw, nc) in streams_cfg:
        ts = time.time()
        opts = dict(kw=kw)
        if 'plain' in kw:
            opts = dict(kw={k: v for k, v in kw.items() if k != 'plain'}, plain=kw['plain'])
        proj = opts['kw'].pop('proj', None) or cfg['proj']
        orc = opts['kw'].pop('oracle', cfg.get('oracle'))
        res = engine.run_stream(sname, [(tier, seed, ci, nc) for ci in range(nc)], proj, orc, opts)
        stream_stats.append(dict(stream=sname, requests=res.n, mismatches=res.counters['mismatch'],
                                 oracle_failures=res.counters['oracle-fail'], wall_s=round(time.time() - ts, 2),
                                 projection=proj))
        total += res.n
        distinct += len(res.distinct)
        for k, v in res.counters.items():
            counters[k] = counters.get(k, 0) + v
        for (r, ra, ma) in res.mismatches:
            all_mismatches.append(dict(stream=sname, request=engine.line(r), req=r, real=ra, model=ma))
        for (r, ra, f) in res.oracle_failures:
            all_oracle.append(dict(stream=sname, request=engine.line(r), req=r, real=ra, failure=f))
        samples.extend(res.samples[:2])
        log('[%s] stream %-16s %8d requests  %d mismatches  %d oracle failures  %.1fs' % (
            prop, sname, res.n, res.counters['mismatch'], res.counters['oracle-fail'], time.time() - ts))

    # 4. classification
    findings = load_findings()
    reported = set()
    for of in all_oracle:
        fd = finding_for(prop, of['failure'], findings)
        if fd is not None:
            if fd['id'] not in reported:
                reported.add(fd['id'])
                known.append(fd)
            continue
        key = of['failure'].split(':')[0]
        if key in reported:
            continue
        reported.add(key)
        path = write_replay(prop, 'failing-input', dict(
            stream=of['stream'], request=of['request'], req=of['req'], real_answer=of['real'],
            clause=of['failure'], seed=seed))
        violations.append((path, ''))
    if not violations and all_mismatches:
        m = all_mismatches[0]
        path = write_replay(prop, 'correspondence', dict(
            stream=m['stream'], request=m['request'], req=m['req'], real_answer=m['real'], model_answer=m['model'],
            broken='correspondence between Lean model and /repo on stream %s (projection %s)' % (m['stream'], cfg['proj']),
            more=[x['request'] for x in all_mismatches[1:10]], seed=seed))
        violations.append((path, ' no-failing-input-found'))
    if not violations and (proof_broken or forb):
        path = write_replay(prop, 'proof', dict(
            broken='proof obligation(s) no longer check', theorems=proof_broken, forbidden=forb,
            build_ok=ok_build, seed=seed))
        violations.append((path, ' no-failing-input-found'))

    # 5. evidence
    wall = time.time() - t0
    ev = dict(
        property_id=prop, tier=tier, seed=seed, level='proof',
        coverage=dict(
            obligations=obligations, discharged=discharged,
            checker_cmd='cd /verif/lean && lake build && lake env lean <#print axioms of each registered theorem>',
            trusted_base=[
                "Lean 4 kernel (lean 4.33.0); axioms per theorem listed under 'theorems' (subset of propext, Classical.choice, Quot.sound)",
                'hand-written Lean model Sigverif/Model/*.lean, tied to /repo by the differential correspondence below (not a proof)',
                "Model/Bind.lean is a model of CPython's argument binding, validated against real calls by stream `bind`",
                'the Python harness (generators, adapters, canonicalisation, oracles)',
                cfg.get('runtime_part', ''),
            ],
            theorems=aud,
            evaluations=total, distinct_nontrivial=distinct,
            rule='one evaluation = one request run on the real sigtools code AND on the Lean model, answers compared under '
                 'the projection named per stream; distinct = distinct request lines whose real answer is not an empty signature',
            samples=samples[:6] or [dict(note='no sample')],
            traces_validated_against_impl=total,
            streams=stream_stats,
            counters=counters,
            correspondence_mismatches=len(all_mismatches),
            oracle_failures=len(all_oracle),
            known_findings=[fd['id'] for fd in known],
            tree_hashes=core.tree_hashes(),
            notes=notes,
            exhaustive=False,
        ),
        assumptions=[
            'the theorems are about the Lean model; they transfer to sigtools as far as the correspondence streams agree',
            'inputs of the correspondence never share Parameter objects between different signatures (identity-based _exclude_from_seq)',
        ],
        wall_s=round(wall, 2),
        violations=len(violations),
    )
    if obligations == 0:
        # no theorem registered (yet) for this property: the schema's proof keys must not claim any; the
        # exploration-style counts are what this run can honestly report
        for k in ('obligations', 'discharged'):
            ev['coverage'].pop(k)
        ev['coverage']['notes'].append('no theorem is registered for this property yet: this run is differential validation only')
    os.makedirs(EVID, exist_ok=True)
    with open(os.path.join(EVID, '%s.json' % prop), 'w') as f:
        json.dump(ev, f, indent=1, default=repr)

    for fd in known:
        print('KNOWN-FINDING: property=%s %s' % (prop, fd['what']), flush=True)
    for path, suffix in violations:
        print('VIOLATION property=%s replay=%s%s' % (prop, path, suffix), flush=True)
    print('%s %s tier=%s seed=%d obligations=%d/%d requests=%d mismatches=%d oracle_failures=%d known=%d wall=%.1fs' % (
        prop, 'FAIL' if violations else 'ok', tier, seed, discharged, obligations, total, len(all_mismatches),
        len(all_oracle), len(known), wall), flush=True)
    return 1 if violations else 0


def run_replay(prop, path):
    from . import props, engine, oracles
    with open(path) as f:
        rp = json.load(f)
    cfg = props.PROPS[prop]
    if 'req' not in rp:
        print(json.dumps(rp, indent=1)[:3000])
        return 0
    req = _tuplify(rp['req'])
    lake_build()
    ra = engine.real(req)
    ml = core.run_driver([engine.line(req)])[0]
    ma = core.parse_model_answer(ml)
    print('request :', engine.line(req))
    print('real    :', ra)
    print('model   :', ma)
    proj = getattr(engine, cfg['proj'])
    print('agree under %s: %s' % (cfg['proj'], proj(ra) == proj(ma)))
    orc = getattr(oracles, cfg['oracle']) if cfg.get('oracle') else None
    rc = 0
    if orc:
        import collections
        fails = orc(req, ra, collections.Counter())
        for f in fails:
            print('PROPERTY FAILS:', f)
            rc = 1
        if not fails:
            print('property holds on this input')
    return rc


def _tuplify(x):
    if isinstance(x, list):
        return tuple(_tuplify(i) for i in x)
    if isinstance(x, dict):
        d = {k: _tuplify(v) for k, v in x.items()}
        if 'params' in d:
            d['params'] = list(d['params'])
            if d.get('src') is not None:
                d['src'] = {k: list(v) for k, v in d['src'].items()}
            if d.get('depths') is not None:
                d['depths'] = {int(k): v for k, v in d['depths'].items()}
        return d
    return x


def main(argv):
    import argparse
    ap = argparse.ArgumentParser()
    ap.add_argument('prop')
    ap.add_argument('--tier', default=os.environ.get('VERIF_TIER', 'quick'))
    ap.add_argument('--replay')
    a = ap.parse_args(argv)
    seed = int(os.environ.get('VERIF_SEED', '0') or 0)
    try:
        if a.replay:
            return run_replay(a.prop, a.replay)
        return run_check(a.prop, a.tier, seed)
    except core.HarnessError as e:
        print('ERROR (harness, not a verdict): %s' % e, flush=True)
        traceback.print_exc()
        return 2
    except Exception as e:  # noqa  — any crash of the machinery is an infrastructure error, never a verdict
        print('ERROR (harness crashed, not a verdict): %s: %s' % (type(e).__name__, e), flush=True)
        traceback.print_exc()
        return 2
