"""harness/findings.py — matching oracle failures against /verif/known_findings.json.

A finding is matched on *what fails* (a stable key at the start of the oracle's failure text plus,
where given, a regular expression on the rest), never on the property id alone, so that a different
violation of the same property is still reported.  The file is never written at run time.
"""
import re


def matches(fd, failure_text):
    m = fd.get('match', {})
    key = m.get('key')
    if key and not failure_text.startswith(key + ':'):
        return False
    rx = m.get('regex')
    if rx and not re.search(rx, failure_text):
        return False
    return bool(key or rx)
