"""harness/scenarios.py — real, source-available callables for the runtime checks (C07, C13, C16, C17).
They live in a real file so that inspect.getsource works and automatic discovery runs."""
import functools
import sigtools
from sigtools import specifiers, modifiers, wrappers

TICK = None      # set by the fault injector: callable or None


def _tick():
    if TICK is not None:
        TICK()


def inner(a, b=2, *, c=3):
    return ('inner', a, b, c)


def plain_wrapper(x, *args, **kwargs):
    return inner(*args, **kwargs)


def wraps_deco(func):
    @functools.wraps(func)
    def wrapper(y, *args, **kwargs):
        return func(*args, **kwargs)
    return wrapper


@wraps_deco
def wrapped_fn(p, q=1):
    return ('wrapped_fn', p, q)


@wraps_deco
@wraps_deco
def wrapped_twice(p, q=1):
    return ('wrapped_twice', p, q)


@specifiers.forwards_to_function(inner)
def declared(x, *args, **kwargs):
    return inner(*args, **kwargs)


@specifiers.forwards_to_function(inner, emulate=True)
def declared_emulated(x, *args, **kwargs):
    return inner(*args, **kwargs)


def _user_forger(obj):
    _tick()
    return specifiers.forwards(obj, inner)


@functools.partial(specifiers.set_signature_forger, forger=_user_forger)
def user_forged(x, *args, **kwargs):
    return inner(*args, **kwargs)


@modifiers.kwoargs('k')
def pok_fn(u, k=1, *args, **kwargs):
    return inner(*args, **kwargs)


@modifiers.autokwoargs
@modifiers.annotate(u=int)
def pok_annotated(u, k=1, *args, **kwargs):
    return inner(*args, **kwargs)


@wrappers.decorator
def deco(func, *args, d=1, **kwargs):
    return func(*args, **kwargs)


@deco
def decorated_fn(m, n=2):
    return ('decorated_fn', m, n)


@wrappers.wrapper_decorator
def wdeco(func, *args, w=1, **kwargs):
    return func(*args, **kwargs)


@wdeco
def wdecorated_fn(m, n=2):
    return ('wdecorated_fn', m, n)


class AsForged(object):
    __signature__ = specifiers.as_forged

    @specifiers.forwards_to_method('method')
    def __call__(self, x, *args, **kwargs):
        return self.method(*args, **kwargs)

    def method(self, a, b, c=1):
        return ('method', a, b, c)


class AsForgedClass(object):
    """the CLASS is the subject: its __signature__ entry is the as_forged descriptor, which must still be there afterwards"""
    __signature__ = specifiers.as_forged

    def __init__(self, u, v=1):
        pass

    @specifiers.forwards_to_method('method')
    def __call__(self, x, *args, **kwargs):
        return self.method(*args, **kwargs)

    def method(self, a, b, c=1):
        return ('method', a, b, c)


class WithInstanceSignature(object):
    def __init__(self):
        self.__signature__ = sigtools.signature(inner)

    def __call__(self, *args, **kwargs):
        return inner(*args, **kwargs)


class WithGetter(object):
    """attribute getters are outside code: this one can be made to raise"""
    def __init__(self):
        self.__dict__['__wrapped__'] = inner

    def __getattribute__(self, name):
        if name in ('__wrapped__', '__signature__'):
            _tick()
        return object.__getattribute__(self, name)

    def __call__(self, z, *args, **kwargs):
        return inner(*args, **kwargs)


class Methods(object):
    def target(self, a, b=2):
        return ('target', a, b)

    @specifiers.forwards_to_method('target')
    def fwd(self, x, *args, **kwargs):
        return self.target(*args, **kwargs)

    def auto(self, x, *args, **kwargs):
        return self.target(*args, **kwargs)

    @modifiers.kwoargs('k')
    def pok(self, a, k=1):
        return ('pok', a, k)

    @deco
    def decorated(self, m):
        return ('decorated', m)


def make():
    """fresh instances for scenarios that need one"""
    return {
        'plain_wrapper': plain_wrapper,
        'wrapped_fn': wrapped_fn,
        'wrapped_twice': wrapped_twice,
        'declared': declared,
        'declared_emulated': declared_emulated,
        'user_forged': user_forged,
        'pok_fn': pok_fn,
        'pok_annotated': pok_annotated,
        'decorated_fn': decorated_fn,
        'wdecorated_fn': wdecorated_fn,
        'as_forged': AsForged(),
        'as_forged_class': AsForgedClass,
        'instance_signature': WithInstanceSignature(),
        'with_getter': WithGetter(),
        'method_fwd': Methods().fwd,
        'method_auto': Methods().auto,
        'method_pok': Methods().pok,
        'method_decorated': Methods().decorated,
        'partial': functools.partial(plain_wrapper, 1),
    }


EXPECTED = {
    'plain_wrapper': '(x, a, b=2, *, c=3)',
    'wrapped_fn': '(y, p, q=1)',
    'declared': '(x, a, b=2, *, c=3)',
    'declared_emulated': '(x, a, b=2, *, c=3)',
    'user_forged': '(x, a, b=2, *, c=3)',
    'pok_fn': '(u, a, b=2, *, k=1, c=3)',
    'pok_annotated': '(u: int, a, b=2, *, k=1, c=3)',
    'wrapped_twice': '(p, q=1)',
    'with_getter': '(z, a, b=2, *, c=3)',
    'decorated_fn': '(m, n=2, *, d=1)',
    'wdecorated_fn': '(m, n=2, *, w=1)',
    'as_forged': '(x, a, b, c=1)',
    'instance_signature': '(a, b=2, *, c=3)',
    'method_fwd': '(x, a, b=2)',
    'method_auto': '(x, a, b=2)',
    'method_pok': '(a, *, k=1)',
    'method_decorated': '(m, *, d=1)',
    'partial': '(a, b=2, *, c=3)',
}


class AsForgedSlow(object):
    """as_forged object whose forger calls out (TICK), so that a test can hold one thread inside the computation"""
    __signature__ = specifiers.as_forged

    def __call__(self, x, *args, **kwargs):
        return inner(*args, **kwargs)


AsForgedSlow.__call__ = specifiers.set_signature_forger(AsForgedSlow.__call__, _user_forger)


# a functools.wraps function whose forwarding goes through a property (user code run while the callee is resolved)
def _wrapped_target(x, y, *, z=0):
    return ('target', x, y, z)


def _real_impl(x, y, *, z=0):
    return ('impl', x, y, z)


class _Holder(object):
    @property
    def impl(self):
        _tick()
        return _real_impl


holder = _Holder()


@functools.wraps(_wrapped_target)
def resolving_wrapped(*args, **kwargs):
    return holder.impl(*args, **kwargs)
