"""harness/oracles.py — the properties themselves, executable against the REAL code.

Written from the property texts (not from the Lean model).  Used (a) to look for a concrete
failing input when a proof obligation or the correspondence breaks, (b) on every run as a
sanity layer.  They are tests, not proofs: the theorems carry the quantifier.

Each oracle is `oracle(req, real_answer, counters) -> [failure text, ...]`.
Acceptance is decided by `core.accepts` (CPython's binding on shapes), itself validated
against really calling def functions by the `bind` stream on every run.
"""
import itertools
from . import core, engine
from .core import signatures, S

acc = core.accepts


def P_of(canon_params):
    """canonical params (ids) -> (name:str, kind, dflt)"""
    return [(core.NAMES.name(p[0]), p[1], p[2]) for p in canon_params]


def names_of(ps, kinds=('po', 'pk', 'vp', 'ko', 'vk')):
    return [p[0] for p in ps if p[1] in kinds]


def kw_passable(ps):
    return {p[0] for p in ps if p[1] in ('pk', 'ko')}


def non_colliding(R, inputs, K):
    """every keyword is keyword-passable in R or is not a parameter name of any input
    (R None: the operation raised; only the second disjunct can hold)"""
    kp = kw_passable(R) if R is not None else set()
    allnames = set()
    for s in inputs:
        allnames.update(p[0] for p in s)
    return all(k in kp or k not in allnames for k in K)


def shapes_for(inputs, extra_pos=2, foreign=('zz',), maxk=None):
    npos = max([sum(1 for p in s if p[1] in ('po', 'pk')) for s in inputs] + [0])
    pool = []
    for s in inputs:
        for p in s:
            if p[0] not in pool:
                pool.append(p[0])
    pool += list(foreign)
    for n in range(npos + extra_pos + 1):
        for r in range(len(pool) + 1):
            if maxk is not None and r > maxk:
                break
            for K in itertools.combinations(pool, r):
                yield n, K


# ----------------------------------------------------------------------------- C03
def _mask_real(d, n, nms, fl=(False,) * 4):
    return core.run_real(signatures.mask, core.mk_sig(d), n, *nms, hide_args=fl[0], hide_kwargs=fl[1],
                         hide_varargs=fl[2], hide_varkwargs=fl[3])


def c03(req, ra, ctr):
    if req[0] != 'mask':
        return []
    _, n, nms, fl, d = req
    s = [(p[0], p[1], p[2]) for p in d['params']]
    fails = []
    po_names = set(names_of(s, ('po',)))
    if len(set(nms)) != len(nms) or (set(nms) & po_names):
        ctr['c03:outside-quantifier'] += 1
        return []
    if ra[0] == 'err' and ra[1] != 'ValueError':
        return ['mask raised %s (only ValueError is allowed)' % ra[1]]
    flags0 = not any(fl)
    pool_inputs = [s]
    if flags0:
        if ra[0] == 'ok':
            R = P_of(ra[1])
            ctr['c03:exact-checked'] += 1
            for m, K in shapes_for([s], foreign=('zz', 'zy')):
                if set(K) & set(nms):
                    continue
                if not non_colliding(R, [s], K):
                    continue
                a1 = acc(R, m, K)
                a2 = acc(s, n + m, tuple(nms) + K)
                if a1 != a2:
                    fails.append('inexact: mask%s n=%d names=%s result %s %s call (%d,%s) but sig %s (%d,%s)' % (
                        core.fmt_params(s), n, nms, core.fmt_params(R), 'accepts' if a1 else 'rejects', m, K,
                        'accepts' if a2 else 'rejects', n + m, tuple(nms) + K))
                    break
            # existence: mask returned, so sig can be passed those arguments
            if not any(acc(s, n + m, tuple(nms) + K) for m, K in shapes_for([s], foreign=()) if not set(K) & set(nms)):
                fails.append('returned-but-impossible: mask%s n=%d names=%s -> %s' % (core.fmt_params(s), n, nms, core.fmt_params(R)))
            # permutation invariance (full equality, provenance included)
            if len(nms) > 1:
                rb = _mask_real(d, n, tuple(sorted(nms)))
                if rb != ra:
                    fails.append('order-dependent: names=%s -> %s ; sorted -> %s' % (nms, ra[:3], rb[:3]))
            if n == 0 and not nms:
                if ra != core.canon_sig(core.mk_sig(d)):
                    fails.append('mask(sig, 0) != sig for %s' % core.fmt_params(s))
            if not nms:
                r1 = core.mk_sig(d)
                try:
                    import warnings
                    with warnings.catch_warnings():
                        warnings.simplefilter('ignore')
                        mid = signatures.mask(r1, n)
                        for m in (0, 1, 2):
                            try:
                                a = core.canon_sig(signatures.mask(mid, m))
                            except ValueError as e:
                                a = core.canon_exc(e)
                            b = _mask_real(d, n + m, ())
                            if a != b:
                                fails.append('mask(mask(s,%d),%d) != mask(s,%d) for %s: %s vs %s' % (
                                    n, m, n + m, core.fmt_params(s), a[:2], b[:2]))
                except ValueError:
                    pass
        else:
            ctr['c03:raise-checked'] += 1
            for m, K in shapes_for([s], foreign=()):
                if set(K) & set(nms):
                    continue
                if acc(s, n + m, tuple(nms) + K):
                    fails.append('raise-but-possible: mask%s n=%d names=%s raised, yet sig accepts (%d,%s)' % (
                        core.fmt_params(s), n, nms, n + m, tuple(nms) + K))
                    break
    else:
        # hide flags: only remove parameters; soundness for some choice of the hidden arguments
        if ra[0] == 'ok':
            R = P_of(ra[1])
            ctr['c03:hide-checked'] += 1
            sp = {p[0]: p for p in s}
            for p in R:
                q = sp.get(p[0])
                if q is None:
                    fails.append('hide flags added parameter %s: %s -> %s' % (p[0], core.fmt_params(s), core.fmt_params(R)))
            kinds = {p[1] for p in R}
            if fl[0] and kinds & {'po', 'pk', 'vp'}:
                fails.append('hide_args left a positional parameter: %s' % core.fmt_params(R))
            if fl[1] and kinds & {'pk', 'ko', 'vk'}:
                fails.append('hide_kwargs left a keyword parameter: %s' % core.fmt_params(R))
            if fl[2] and 'vp' in kinds:
                fails.append('hide_varargs left *args: %s' % core.fmt_params(R))
            if fl[3] and 'vk' in kinds:
                fails.append('hide_varkwargs left **kwargs: %s' % core.fmt_params(R))
            # soundness
            npos_s = sum(1 for p in s if p[1] in ('po', 'pk'))
            hidden_pos = range(0, npos_s + 2) if fl[0] else (None,)
            kwpool = [p[0] for p in s if p[1] in ('pk', 'ko')] + ['zh']
            hidden_kw = [H for r in range(len(kwpool) + 1) for H in itertools.combinations(kwpool, r)] if fl[1] else [()]
            for m, K in shapes_for([s], foreign=('zz',)):
                if set(K) & set(nms):
                    continue
                if not non_colliding(R, [s], K):
                    continue
                if not acc(R, m, K):
                    continue
                ok = False
                # hide_args hides *all* positional arguments of the forwarding call (n included) and
                # hide_kwargs *all* its keyword arguments (the given names included): the code ignores
                # n / names then, and so does this reading of "some choice of the hidden arguments".
                forced = () if fl[1] else tuple(nms)
                for e in hidden_pos:
                    tot = (e if e is not None else n) + m
                    for H in hidden_kw:
                        if set(H) & (set(K) | set(forced)):
                            continue
                        if acc(s, tot, forced + K + H):
                            ok = True
                            break
                    if ok:
                        break
                if not ok:
                    fails.append('hide-unsound: mask%s n=%d names=%s flags=%s -> %s accepts (%d,%s) but sig accepts it for no choice of hidden arguments' % (
                        core.fmt_params(s), n, nms, fl, core.fmt_params(R), m, K))
                    break
    return fails


# ----------------------------------------------------------------------------- shared helpers
def posl(s):
    return [p for p in s if p[1] in ('po', 'pk')]


def role_cons(inputs):
    for x, y in itertools.combinations(inputs, 2):
        kx = {p[0]: p[1] for p in x}
        ky = {p[0]: p[1] for p in y}
        ix = {p[0]: i for i, p in enumerate(posl(x))}
        iy = {p[0]: i for i, p in enumerate(posl(y))}
        for nme in set(kx) & set(ky):
            if kx[nme] != ky[nme]:
                return False
            if nme in ix and ix[nme] != iy.get(nme):
                return False
    return True


def aligned(inputs):
    if not role_cons(inputs):
        return False
    for x, y in itertools.combinations(inputs, 2):
        for p, q in zip(posl(x), posl(y)):
            if p[0] != q[0]:
                return False
    return True


def inputs_of(req):
    """the input signatures of a request as [(name, kind, dflt, ann, uann)], plus their fn ids"""
    op = req[0]
    if op == 'merge':
        ds = list(req[1])
    elif op == 'embed':
        ds = list(req[3])
    elif op in ('mask', 'maskp'):
        ds = [req[4]]
    elif op == 'forwards':
        ds = [req[4], req[5]]
    else:
        ds = []
    return ds


def S3(d):
    return [(p[0], p[1], p[2]) for p in d['params']]


def R_full(ra):
    """canonical result params with string names: (name, kind, dflt, ann, uann)"""
    return [(core.NAMES.name(p[0]), p[1], p[2], p[3], p[4]) for p in ra[1]]


# ----------------------------------------------------------------------------- C01
def c01(req, ra, ctr):
    if req[0] != 'merge':
        return []
    ins = [S3(d) for d in req[1]]
    if ra[0] == 'err':
        if ra[1] not in ('IncompatibleSignatures', 'ValueError'):
            return ['bad-exception: merge raised %s' % ra[1]]
        return []
    R = P_of(ra[1])
    rc = role_cons(ins)
    ctr['c01:checked'] += 1
    if rc:
        ctr['c01:role-consistent'] += 1
    for n, K in shapes_for(ins + [R], foreign=('zz',), maxk=4):
        if not acc(R, n, K):
            continue
        pure = (n == 0 or not K)
        if not pure and not (rc and non_colliding(R, ins, K)):
            continue
        for j, s in enumerate(ins):
            if not acc(s, n, K):
                return ['unsound-%s: merge(%s) = %s accepts (%d,%s) but input %d %s rejects it' % (
                    'pure' if pure else 'roles', ', '.join(core.fmt_params(x) for x in ins), core.fmt_params(R),
                    n, K, j, core.fmt_params(s))]
    return []


# ----------------------------------------------------------------------------- C09
def _merge_real(ds):
    return core.run_real(signatures.merge, *[core.mk_sig(d) for d in ds])


def c09(req, ra, ctr):
    op = req[0]
    fails = []
    if op == 'apply':
        want = core.canon_sig(core.mk_sig(req[1]))
        if ra != want:
            fails.append('roundtrip: apply_params(s, *sort_params(s)) != s for %s' % core.fmt_desc(req[1]))
        return fails
    if op != 'merge':
        return []
    ds = list(req[1])
    ins = [S3(d) for d in ds]
    if ra[0] == 'err' and ra[1] not in ('IncompatibleSignatures', 'ValueError'):
        return ['bad-exception: merge raised %s' % ra[1]]
    # unary / idempotence / neutral element
    bare_idx = [j for j, s in enumerate(ins) if [p[1] for p in s] == ['vp', 'vk'] and all(q[3] is None for q in ds[j]['params'])]
    if len(ds) == 1:
        if ra != core.canon_sig(core.mk_sig(ds[0])):
            fails.append('unary: merge(s) != s for %s' % core.fmt_params(ins[0]))
        ctr['c09:unary'] += 1
    if len(ds) == 2 and ds[0]['params'] == ds[1]['params']:
        ctr['c09:idem'] += 1
        if ra[0] != 'ok' or ra[1] != core.canon_sig(core.mk_sig(ds[0]))[1]:
            fails.append('idempotence: merge(s, s) != s for %s' % core.fmt_params(ins[0]))
    if len(ds) == 2 and len(bare_idx) == 1:
        ctr['c09:neutral'] += 1
        other = ins[1 - bare_idx[0]]

        def strip(ps):
            return [(('*' if p[1] == 'vp' else '**' if p[1] == 'vk' else p[0]), p[1], p[2]) for p in ps]
        if ra[0] != 'ok' or strip(P_of(ra[1])) != strip(other):
            fails.append('neutral: merge with bare (*args, **kwargs) on side %d changed %s into %s' % (
                bare_idx[0], core.fmt_params(other), core.fmt_params(P_of(ra[1])) if ra[0] == 'ok' else ra))
        else:
            # ... and keeps every annotation with its upgraded form (library equality looks at both)
            want_ann = [(q[3], core.uann_desc_str(q[4])) for q in ds[1 - bare_idx[0]]['params']]
            got_ann = [(q[3], q[4]) for q in ra[1]]
            if got_ann != want_ann:
                fails.append('neutral-annotations: merge with bare (*args, **kwargs) on side %d turned the annotations %s of %s into %s' % (
                    bare_idx[0], want_ann, core.fmt_params(other), got_ann))
    al = aligned(ins)
    rc = role_cons(ins)
    if al:
        ctr['c09:aligned'] += 1
        if ra[0] == 'err':
            if ra[1] != 'IncompatibleSignatures':
                fails.append('aligned-valueerror: merge of aligned inputs raised plain %s: %s' % (
                    ra[1], ', '.join(core.fmt_params(x) for x in ins)))
            else:
                allnames = set(p[0] for s in ins for p in s)
                for n, K in shapes_for(ins, foreign=('zz', 'zy')):
                    if any(k in allnames for k in K):
                        continue
                    if all(acc(s, n, K) for s in ins):
                        fails.append('raise-but-common: merge(%s) raised, yet every input accepts (%d,%s)' % (
                            ', '.join(core.fmt_params(x) for x in ins), n, K))
                        break
        else:
            R = P_of(ra[1])
            for n, K in shapes_for(ins, foreign=('zz',), maxk=4):
                if not non_colliding(R, ins, K):
                    continue
                a1 = acc(R, n, K)
                a2 = all(acc(s, n, K) for s in ins)
                if a1 != a2:
                    fails.append('inexact-aligned: merge(%s) = %s %s (%d,%s), inputs %s' % (
                        ', '.join(core.fmt_params(x) for x in ins), core.fmt_params(R),
                        'accepts' if a1 else 'rejects', n, K, 'all accept' if a2 else 'do not all accept'))
                    break
    if rc and len(ds) >= 3:
        ctr['c09:assoc'] += 1
        first = _merge_real(ds[:2])
        if first[0] == 'ok':
            try:
                import warnings
                with warnings.catch_warnings():
                    warnings.simplefilter('ignore')
                    m1 = signatures.merge(*[core.mk_sig(d) for d in ds[:2]])
                    nested = core.run_real(signatures.merge, m1, *[core.mk_sig(d) for d in ds[2:]])
            except Exception as e:  # noqa
                nested = core.canon_exc(e)
            if nested != ra:
                fails.append('fold: merge(a,b,c..) != merge(merge(a,b),c..) for %s: %s vs %s' % (
                    ', '.join(core.fmt_params(x) for x in ins), ra[:3], nested[:3]))
        elif ra[0] != 'err':
            fails.append('fold: merge(a,b) raises but merge(a,b,c..) returns for %s' % (
                ', '.join(core.fmt_params(x) for x in ins)))
    return fails


# ----------------------------------------------------------------------------- C02
def composite(o, i, uva, uvk, n, K):
    if not acc(o, n, K):
        return False
    npos = len(posl(o))
    kwp = kw_passable(o)
    n2 = max(0, n - npos) if uva else 0
    k2 = tuple(k for k in K if k not in kwp) if uvk else ()
    return acc(i, n2, k2)


def _embed_real(ds, uva, uvk):
    return core.run_real(signatures.embed, *[core.mk_sig(d) for d in ds], use_varargs=bool(uva), use_varkwargs=bool(uvk))


def c02(req, ra, ctr):
    if req[0] != 'embed':
        return []
    _, uva, uvk, ds = req
    ds = list(ds)
    ins = [S3(d) for d in ds]
    fails = []
    if ra[0] == 'err' and ra[1] != 'IncompatibleSignatures':
        # a plain ValueError is possible only through duplicate names across star/named parameters
        named = [set(p[0] for p in s) for s in ins]
        if not any(a & b for a, b in itertools.combinations(named, 2)):
            fails.append('bad-exception: embed raised %s for %s' % (ra[1], ', '.join(core.fmt_params(x) for x in ins)))
        return fails
    if len(ds) == 2:
        o, i = ins
        onames = set(names_of(o, ('po', 'pk', 'ko')))
        inames = set(names_of(i, ('po', 'pk', 'ko')))
        if ra[0] == 'err':
            ctr['c02:raise'] += 1
            # "both declare a same-named parameter": any shared name except a star parameter of the same kind in both
            # (which is the forwarding itself) -- the reading of theorem embed_raises_only_if (Props/C02.lean, sharedNamed)
            shared = any(p[0] == q[0] and not (p[1] == q[1] and p[1] in ('vp', 'vk')) for p in o for q in i)
            if not shared:
                for n, K in shapes_for(ins, foreign=('zz',)):
                    if composite(o, i, uva, uvk, n, K):
                        fails.append('raise-unjustified: embed(%s, %s, %s, %s) raised but the composite accepts (%d,%s)' % (
                            core.fmt_params(o), core.fmt_params(i), uva, uvk, n, K))
                        break
            return fails
        R = P_of(ra[1])
        ctr['c02:ok'] += 1
        opos = posl(o)
        ipos_in_R = [p for p in R if p[1] in ('po', 'pk') and p[0] in inames and p[0] not in onames]
        exc_case = any(p[2] is not None for p in opos) and bool(ipos_in_R)
        if exc_case:
            ctr['c02:inexact-allowed'] += 1
        for n, K in shapes_for(ins, foreign=('zz',), maxk=4):
            if not non_colliding(R, ins, K):
                continue
            a1 = acc(R, n, K)
            a2 = composite(o, i, uva, uvk, n, K)
            if a1 and not a2:
                fails.append('unsound: embed(%s, %s, %s, %s) = %s accepts (%d,%s) but outer-forwarding-to-inner does not' % (
                    core.fmt_params(o), core.fmt_params(i), uva, uvk, core.fmt_params(R), n, K))
                break
            if a2 and not a1 and not exc_case:
                fails.append('inexact: embed(%s, %s, %s, %s) = %s rejects (%d,%s) which the composite accepts' % (
                    core.fmt_params(o), core.fmt_params(i), uva, uvk, core.fmt_params(R), n, K))
                break
        if [p[1] for p in o] == ['vp', 'vk'] and uva and uvk:
            ctr['c02:bare'] += 1
            if [(p[0], p[1], p[2]) for p in R] != i:
                fails.append('bare: embed((*args, **kwargs), %s) = %s' % (core.fmt_params(i), core.fmt_params(R)))
    elif len(ds) >= 3:
        ctr['c02:fold'] += 1
        first = _embed_real(ds[:2], uva, uvk)
        if first[0] == 'ok':
            import warnings
            with warnings.catch_warnings():
                warnings.simplefilter('ignore')
                m1 = signatures.embed(*[core.mk_sig(d) for d in ds[:2]], use_varargs=bool(uva), use_varkwargs=bool(uvk))
                nested = core.run_real(signatures.embed, m1, *[core.mk_sig(d) for d in ds[2:]],
                                       use_varargs=bool(uva), use_varkwargs=bool(uvk))
            a = ra[1] if ra[0] == 'ok' else ra
            b = nested[1] if nested[0] == 'ok' else ('err',) if nested[0] == 'err' else nested
            if ra[0] == 'err':
                a = ('err',)
            if a != b:
                fails.append('fold: embed(a,b,c) params != embed(embed(a,b),c) params for %s: %s vs %s' % (
                    ', '.join(core.fmt_params(x) for x in ins), a, b))
        elif ra[0] != 'err':
            fails.append('fold: embed(a,b) raises but embed(a,b,c) returns for %s' % ', '.join(core.fmt_params(x) for x in ins))
    return fails


# ----------------------------------------------------------------------------- C08
def c08(req, ra, ctr):
    """provenance of an algebra result whose inputs carry default sources"""
    op = req[0]
    if op.startswith('rt:'):
        return rt_problems(req, ra)
    if op not in ('merge', 'embed', 'mask', 'maskp', 'forwards') or ra[0] != 'ok':
        return []
    ds = inputs_of(req)
    fails = []
    if 'no-sources' in ra[6] or 'no-depths' in ra[6]:
        return ['no-depths: result lacks sources / +depths (%s)' % (ra[6],)]
    if any(d['src'] is not None for d in ds):
        # inputs that already carry provenance (results of earlier operations): the depth rule -- depths grow by one per
        # level of embedding and a callable reached twice keeps the smaller depth
        ctr['c08:depth-rule-checked'] += 1
        ind = [core.desc_src(d)[1] for d in ds]
        want_d = dict(ind[0])
        if op == 'merge':
            for dd in ind[1:]:
                for f, v in dd.items():
                    want_d[f] = min(want_d.get(f, v), v)
        elif op in ('embed', 'forwards'):
            for lvl, dd in enumerate(ind[1:], 1):
                for f, v in dd.items():
                    want_d[f] = min(want_d.get(f, v + lvl), v + lvl)
        got_d = dict(ra[3])
        if got_d != want_d:
            return ['depth-rule: +depths = %s, expected %s (smallest depth of each callable; one more per level of embedding) for %s' % (
                got_d, want_d, engine.line(req))]
        return []
    R = R_full(ra)
    rnames = [p[0] for p in R]
    src = {core.NAMES.name(k): list(v) for k, v in ra[2]}
    depths = dict(ra[3])
    decl = {}
    for d in ds:
        decl.setdefault(d['fn'], set()).update(p[0] for p in d['params'])
    if op == 'maskp':
        decl[req[3]] = set(k for k, _ in req[2])
    fns = [d['fn'] for d in ds]
    shared_fn = len(set(fns)) != len(fns)
    ctr['c08:checked'] += 1
    if sorted(src) != sorted(rnames):
        fails.append('keys: sources keys %s != parameter names %s for %s' % (sorted(src), sorted(rnames), engine.line(req)))
    for x, lst in src.items():
        if not lst:
            fails.append('empty: sources[%s] is empty for %s' % (x, engine.line(req)))
        if len(set(lst)) != len(lst):
            if shared_fn and all(lst.count(f) == 1 or fns.count(f) > 1 for f in lst):
                fails.append('dup-sources-same-callable: sources[%s] = %s (the same callable is an input twice)' % (x, lst))
            elif op == 'merge' and len(ds) >= 3 and not role_cons([S3(d) for d in ds]):
                fails.append('dup-sources-role-inconsistent: sources[%s] = %s for the n-ary merge of inputs using that name in '
                             'different roles, %s' % (x, lst, engine.line(req)))
            else:
                fails.append('dup-sources: sources[%s] = %s for %s' % (x, lst, engine.line(req)))
        for f in lst:
            if f not in depths:
                fails.append('no-depth-for-source: %s in sources[%s] has no depth for %s' % (f, x, engine.line(req)))
            if x not in decl.get(f, ()):
                fails.append('untruthful: sources[%s] names callable %s which declares no such parameter, for %s' % (
                    x, f, engine.line(req)))
    # exactness for named parameters on consistently named inputs
    ins = [S3(d) for d in ds]
    consistent = False
    if op == 'merge':
        consistent = role_cons(ins)
    elif op == 'embed':
        allsets = [set(p[0] for p in s) for s in ins]
        consistent = not any(a & b - {'args', 'kwargs', 'p', 'k'} for a, b in itertools.combinations(allsets, 2)) and \
            not any(set(names_of(a, ('po', 'pk', 'ko'))) & set(names_of(b)) for a, b in itertools.permutations(ins, 2))
    elif op == 'forwards':
        consistent = not (set(names_of(ins[0])) & set(names_of(ins[1], ('po', 'pk', 'ko')))) and \
            not (set(names_of(ins[0], ('po', 'pk', 'ko'))) & set(names_of(ins[1])))
    if consistent and not shared_fn:
        ctr['c08:exact-checked'] += 1
        for p in R:
            if p[1] in ('vp', 'vk'):
                continue
            want = {d['fn'] for d in ds if p[0] in [q[0] for q in d['params'] if q[1] in ('po', 'pk', 'ko')]}
            got = set(src.get(p[0], ()))
            if got != want:
                key = 'inexact-sources'
                if op == 'merge' and len(ds) >= 3 and got < want:
                    # finding D45: the fold dropped this (optional) parameter at an earlier step and a later input brought
                    # it back: the callables merged before the drop are not credited.  Decided on the real code: some
                    # proper prefix of the inputs that contains a declaring input merges to a signature without the name.
                    dropped = False
                    for j in range(2, len(ds)):
                        if not any(p[0] in [q[0] for q in d['params']] for d in ds[:j]):
                            continue
                        sub = engine.real(('merge', tuple(ds[:j])))
                        if sub[0] == 'ok' and core.NAMES.id(p[0]) not in [q[0] for q in sub[1]]:
                            dropped = True
                            break
                    if dropped:
                        key = 'inexact-sources-dropped-in-fold'
                fails.append('%s: sources[%s] = %s but the inputs declaring it are %s, for %s' % (
                    key, p[0], sorted(got), sorted(want), engine.line(req)))
    # depths
    if op == 'merge':
        want_d = {f: 0 for f in fns}
    elif op == 'embed':
        want_d = {}
        for i, f in enumerate(fns):
            want_d[f] = min(want_d.get(f, i), i)
    elif op == 'forwards':
        want_d = {fns[0]: 0}
        want_d[fns[1]] = min(want_d.get(fns[1], 1), 1)
    elif op == 'maskp':
        want_d = {fns[0]: 1, req[3]: 0}
    else:
        want_d = {fns[0]: 0}
    if depths != want_d:
        fails.append('depths: +depths = %s, expected %s for %s' % (depths, want_d, engine.line(req)))
    return fails


# ----------------------------------------------------------------------------- C10
def c10(req, ra, ctr):
    op = req[0]
    if ra[0] != 'ok' or op not in ('merge', 'embed', 'forwards', 'mask', 'maskp'):
        return []
    ds = inputs_of(req)
    R = R_full(ra)
    fails = []
    Rn = {p[0]: p for p in R}
    full = [[(p[0], p[1], p[2], p[3], core.uann_desc_str(p[4])) for p in d['params']] for d in ds]
    if op == 'forwards' and req[3][4]:   # partial=True rewrites inner defaults to None
        full[1] = [p if p[1] in ('vp', 'vk') else (p[0], p[1], 0, p[3], p[4]) for p in full[1]]
    ins = [[(p[0], p[1], p[2]) for p in s] for s in full]
    ctr['c10:checked'] += 1
    # kinds only restrict; order of positional parameters per input
    allsets = [set(p[0] for p in s) for s in full]
    disjoint = not any(a & b for a, b in itertools.combinations(allsets, 2))
    for s in (full if (op in ('mask', 'maskp') or (op == 'merge' and role_cons(ins)) or (op in ('embed', 'forwards') and disjoint)) else []):
        sp = {p[0]: p for p in s}
        for p in R:
            q = sp.get(p[0])
            if q is None or q[1] in ('vp', 'vk') or p[1] in ('vp', 'vk'):
                continue
            if not (p[1] == q[1] or (q[1] == 'pk' and p[1] in ('po', 'ko'))):
                if True:
                    fails.append('kind: %s is %s in the result but %s in an input, for %s' % (p[0], p[1], q[1], engine.line(req)))
        order_in = [p[0] for p in s if p[1] in ('po', 'pk')]
        order_R = [p[0] for p in R if p[1] in ('po', 'pk') and p[0] in order_in]
        if True:
            if order_R != [x for x in order_in if x in order_R]:
                fails.append('order: positional order %s in the result vs %s in an input, for %s' % (order_R, order_in, engine.line(req)))
    if op == 'merge' and aligned(ins):
        ctr['c10:merge-aligned'] += 1
        for p in R:
            if p[1] in ('vp', 'vk'):
                continue
            contrib = [q for s in full for q in s if q[0] == p[0] and q[1] not in ('vp', 'vk')]
            if not contrib:
                fails.append('orphan: %s has no contributor, for %s' % (p[0], engine.line(req)))
                continue
            if p[2] is not None and any(q[2] is None for q in contrib):
                fails.append('optional: %s is optional in the result but required in an input, for %s' % (p[0], engine.line(req)))
            if p[2] is not None and all(q[2] is not None for q in contrib):
                vals = {q[2] for q in contrib}
                want = vals.pop() if len(vals) == 1 else 0
                if p[2] != want:
                    fails.append('default: %s has default %s, contributors have %s, for %s' % (p[0], p[2], [q[2] for q in contrib], engine.line(req)))
            anns = [q[3] for q in contrib if q[3] is not None]
            want_a = anns[0] if anns and len(set(anns)) == 1 else None
            if p[3] != want_a:
                # D14: a later annotated contributor after an earlier disagreement
                earlier_disagree = False
                seen = []
                for a in anns:
                    if seen and a not in seen:
                        earlier_disagree = True
                    seen.append(a)
                if len(anns) >= 3 and len(set(anns)) > 1 and p[3] == anns[-1]:
                    fails.append('annotation-nary-forgets-disagreement: %s annotated %s, contributors %s' % (p[0], p[3], anns))
                else:
                    fails.append('annotation: %s annotated %s, contributors %s, for %s' % (p[0], p[3], anns, engine.line(req)))
    if op in ('embed', 'forwards') and len(ds) == 2:
        o, i = full
        on = [p[0] for p in o]
        inn = [p[0] for p in i]
        if not (set(on) & set(inn)):
            for kinds in (('po', 'pk'), ('ko',)):
                seq = [p[0] for p in R if p[1] in kinds]
                flags = ['o' if x in on else 'i' for x in seq]
                if 'o' in flags and 'i' in flags and flags.index('i') < len(flags) - 1 - flags[::-1].index('o'):
                    fails.append('outer-first: %s parameters of the result are ordered %s (%s), for %s' % (kinds, seq, flags, engine.line(req)))
            # outer defaults dropped only when a required inner positional follows
            Rpos = [p for p in R if p[1] in ('po', 'pk')]
            for idx, p in enumerate(Rpos):
                q = next((x for x in o if x[0] == p[0]), None)
                if q is None:
                    continue
                if q[2] is not None and p[2] is None:
                    if not any(r[0] in inn and r[2] is None for r in Rpos[idx + 1:]):
                        fails.append('default-dropped: outer default of %s dropped without a required inner positional after it, for %s' % (p[0], engine.line(req)))
                elif q[2] != p[2]:
                    fails.append('default-changed: %s default %s -> %s, for %s' % (p[0], q[2], p[2], engine.line(req)))
            for p in R:
                q = next((x for x in o + i if x[0] == p[0]), None)
                if q is not None and p[1] == 'ko' and q[2] != p[2]:
                    fails.append('default-changed: keyword-only %s default %s -> %s, for %s' % (p[0], q[2], p[2], engine.line(req)))
                if q is not None and (q[3], q[4]) != (p[3], p[4]):
                    if not (p[1] in ('vp', 'vk')):
                        fails.append('annotation-changed: %s %s -> %s, for %s' % (p[0], (q[3], q[4]), (p[3], p[4]), engine.line(req)))
    if op == 'maskp':
        for k, v in req[2]:
            p = Rn.get(k)
            if p is None or p[1] != 'ko' or p[2] != v:
                fails.append('partial-keyword: bound keyword %s=%s shows up as %s, for %s' % (k, v, p, engine.line(req)))
    if op in ('mask', 'maskp'):
        s = {p[0]: p for p in full[0]}
        bound = dict(req[2]) if op == 'maskp' else {}
        for p in R:
            q = s.get(p[0])
            if q is None or p[0] in bound:
                continue
            if (q[2], q[3], q[4]) != (p[2], p[3], p[4]):
                fails.append('mask-meta: %s changed default/annotation %s -> %s, for %s' % (p[0], q[2:], p[2:], engine.line(req)))
    return fails


# ----------------------------------------------------------------------------- C15
def valid_params(ps):
    rank = {'po': 0, 'pk': 1, 'vp': 2, 'ko': 3, 'vk': 4}
    top = 0
    seen_d = False
    seen = set()
    for p in ps:
        r = rank[p[1]]
        if r < top:
            return 'kind order'
        top = max(top, r)
        if p[1] in ('po', 'pk'):
            if p[2] is None:
                if seen_d:
                    return 'required positional after optional'
            else:
                seen_d = True
        if p[0] in seen:
            return 'duplicate name'
        seen.add(p[0])
    return None


def c15(req, ra, ctr):
    op = req[0]
    if op not in ('merge', 'embed', 'mask', 'maskp', 'forwards'):
        return []
    fails = []
    ds = inputs_of(req)
    ins = [S3(d) for d in ds]
    if ra[0] == 'err':
        ctr['c15:err'] += 1
        if ra[1] not in ('ValueError', 'IncompatibleSignatures'):
            fails.append('bad-exception: %s raised %s' % (engine.line(req), ra[1]))
        elif op in ('merge', 'embed') and ra[1] != 'IncompatibleSignatures':
            if op == 'merge' and role_cons(ins):
                fails.append('roles-valueerror: merge of role-consistent inputs raised plain ValueError: %s' % engine.line(req))
            if op == 'embed':
                allsets = [set(p[0] for p in s) for s in ins]
                if not any(a & b for a, b in itertools.combinations(allsets, 2)):
                    fails.append('roles-valueerror: embed of name-disjoint inputs raised plain ValueError: %s' % engine.line(req))
    else:
        ctr['c15:ok'] += 1
        why = valid_params(P_of(ra[1]))
        if why:
            fails.append('malformed: %s in result %s of %s' % (why, core.fmt_params(P_of(ra[1])), engine.line(req)))
        if ra[6]:
            fails.append('not-upgraded: result flags %s for %s' % (ra[6], engine.line(req)))
    # downgraded inputs: same parameters + DeprecationWarning
    if op != 'maskp':
        import warnings
        with warnings.catch_warnings(record=True) as w:
            warnings.simplefilter('always')
            try:
                rp = _run_plain(req)
            except core.CanonError:
                raise
        ctr['c15:plain'] += 1
        # same parameters, or the same exception class (a plain input must not turn a ValueError into something else)
        a = engine.proj_params(ra) if ra[0] == 'ok' else tuple(ra[:2])
        b = engine.proj_params(rp) if rp[0] == 'ok' else tuple(rp[:2])
        if a != b:
            fails.append('downgrade-differs: %s gives %s with upgraded and %s with plain inputs' % (engine.line(req), a, b))
        if rp[0] == 'ok' and rp[6]:
            fails.append('downgrade-malformed: %s with plain inputs returns a result with flags %s (every result is an UpgradedSignature with a sources map that has +depths)' % (
                engine.line(req), rp[6]))
        if not any(issubclass(x.category, DeprecationWarning) for x in w) and ds and any(d['params'] for d in ds):
            fails.append('downgrade-no-warning: %s emitted no DeprecationWarning for plain inputs' % engine.line(req))
    return fails


def _run_plain(req):
    op = req[0]
    mk = lambda d: core.mk_sig(d, plain=True)  # noqa
    try:
        if op == 'merge':
            r = signatures.merge(*[mk(d) for d in req[1]])
        elif op == 'embed':
            r = signatures.embed(*[mk(d) for d in req[3]], use_varargs=bool(req[1]), use_varkwargs=bool(req[2]))
        elif op == 'mask':
            _, n, nms, fl, d = req
            r = signatures.mask(mk(d), n, *nms, hide_args=fl[0], hide_kwargs=fl[1], hide_varargs=fl[2], hide_varkwargs=fl[3])
        elif op == 'forwards':
            _, n, nms, fl, o, i = req
            r = signatures.forwards(mk(o), mk(i), n, *nms, hide_args=fl[0], hide_kwargs=fl[1],
                                    use_varargs=fl[2], use_varkwargs=fl[3], partial=fl[4])
    except Exception as e:  # noqa
        return core.canon_exc(e)
    return core.canon_sig(r)


# ----------------------------------------------------------------------------- C12
def pok_spec(F, Pn, Wn):
    """the advertised parameters per the property text, or None when the selection is inadmissible"""
    by = {p[0]: p for p in F}
    if set(Pn) & set(Wn):
        return None
    for n in Pn:
        if n not in by or by[n][1] not in ('po', 'pk'):
            return None
    for n in Wn:
        if n not in by or by[n][1] not in ('pk', 'ko'):
            return None
    seen_regular = False
    for p in F:
        if p[1] == 'pk':
            if p[0] in Pn:
                if seen_regular:
                    return None
            elif p[0] not in Wn:
                seen_regular = True
    A = []
    for p in F:
        if p[1] in ('po', 'pk') and p[0] not in Wn:
            A.append((p[0], 'po' if p[0] in Pn else p[1], p[2]))
    A += [(p[0], p[1], p[2]) for p in F if p[1] == 'vp']
    A += [(p[0], p[1], p[2]) for p in F if p[1] == 'ko']
    A += [(p[0], 'ko', p[2]) for p in F if p[1] == 'pk' and p[0] in Wn]
    A += [(p[0], p[1], p[2]) for p in F if p[1] == 'vk']
    return A


def version_dependent(A, kw):
    po = {p[0] for p in A if p[1] == 'po'}
    return any(p[1] == 'vk' for p in A) and any(k in po for k, _ in kw)


def c12(req, ra, ctr):
    from . import real_mod
    op = req[0]
    fails = []
    if op == 'prepare':
        _, Pn, Wn, F = req
        F3 = [(p[0], p[1], p[2]) for p in F]
        A = pok_spec(F3, Pn, Wn)
        ctr['c12:prepare'] += 1
        if A is None:
            if ra != ('err', 'ValueError'):
                fails.append('inadmissible-accepted: posoargs=%s kwoargs=%s on %s gave %s instead of ValueError' % (Pn, Wn, core.fmt_params(F3), ra))
        elif ra[0] != 'ok':
            fails.append('admissible-rejected: posoargs=%s kwoargs=%s on %s raised %s' % (Pn, Wn, core.fmt_params(F3), ra))
        elif ra[1] and ra[1][0] == 'inspect-differs':
            fails.append('inspect-differs: inspect.signature and sigtools.signature disagree: %s' % (ra[1],))
        else:
            got = [(core.NAMES.name(p[0]), p[1], p[2]) for p in ra[1]]
            if got != A:
                fails.append('advertised: posoargs=%s kwoargs=%s on %s advertises %s, expected %s' % (
                    Pn, Wn, core.fmt_params(F3), core.fmt_params(got), core.fmt_params(A)))
        return fails
    if op == 'deccallst':
        _, order, Pn, Wn, args, kw, F = req
        F3 = [(p[0], p[1], p[2]) for p in F]
        ctr['c12:stacked'] += 1
        if pok_spec(F3, Pn, Wn) is None and ra != ('err', 'ValueError'):
            fails.append('inadmissible-accepted: posoargs=%s and kwoargs=%s applied by two stacked decorators (order %s) on %s gave %s '
                         'instead of ValueError at decoration time' % (Pn, Wn, order, core.fmt_params(F3), ra))
        return fails
    if op in ('deccall', 'deccallm'):
        _, Pn, Wn, args, kw, F = req
        F3 = [(p[0], p[1], p[2]) for p in F]
        if op == 'deccallm':
            # the selection is applied to the function that still has `self` as a regular first parameter
            A = pok_spec([('self', 'pk', None)] + F3, Pn, Wn)
            if A is not None:
                A = [p for p in A if p[0] != 'self']
        else:
            A = pok_spec(F3, Pn, Wn)
        if A is None:
            if ra != ('err', 'ValueError'):
                fails.append('inadmissible-accepted: call through posoargs=%s kwoargs=%s on %s gave %s' % (Pn, Wn, core.fmt_params(F3), ra))
            return fails
        if ra[0] == 'err':
            return ['bad-exception: decorated call raised %s' % (ra,)]
        if version_dependent(A, kw):
            ctr['c12:version-dependent'] += 1
            return []
        ctr['c12:calls'] += 1
        f = real_mod.base_func(tuple(core.P(*p) for p in A))
        a, k = real_mod.call_values(args, kw)
        try:
            want = real_mod.canon_bound(A, f(*a, **k))
        except TypeError:
            want = ('typeerror',)
        if want != ra:
            fails.append('call-behaviour: %s with posoargs=%s kwoargs=%s (advertised %s) called with %s %s gives %s; a native function of the advertised signature gives %s' % (
                core.fmt_params(F3), Pn, Wn, core.fmt_params(A), args, dict(kw), ra, want))
        return fails
    if op in ('startnames', 'endnames', 'autonames'):
        F = req[-1]
        F3 = [(p[0], p[1], p[2]) for p in F]
        pk = [p[0] for p in F3 if p[1] == 'pk']
        if op == 'autonames':
            ex = set(req[1])
            cands = [p[0] for p in F3 if p[1] == 'pk' and p[2] is not None]
            want = None if not ex <= set(cands) else set(c for c in cands if c not in ex)
            sel = (None, want)
        else:
            st, extra = req[1], req[2]
            if st not in pk:
                want = None
            elif op == 'startnames':
                want = set(extra) | set(pk[pk.index(st):])
            else:
                want = set(extra) | set(pk[:pk.index(st) + 1])
            sel = want
        if want is not None:
            A = pok_spec(F3, tuple(want) if op == 'endnames' else (), tuple(want) if op != 'endnames' else ())
            if A is None:
                want = None
        ctr['c12:names'] += 1
        got = None if ra[0] == 'err' else set(core.NAMES.name(i) for i in ra[1])
        if ra[0] == 'err' and ra[1] != 'ValueError':
            fails.append('bad-exception: %s raised %s' % (op, ra[1]))
        if got != want:
            fails.append('names: %s %s on %s selects %s, expected %s' % (op, req[1:-1], core.fmt_params(F3), got, want))
    return fails


# ----------------------------------------------------------------------------- C20
_C20_SEEN = set()


def c20(req, ra, ctr):
    from . import real_mod
    from sigtools import support
    op = req[0]
    fails = []
    if op == 'bindcallsig':
        _, args, kw, ps = req
        A = [(p[0], p[1], p[2]) for p in ps]
        if version_dependent(A, kw):
            ctr['c20:version-dependent'] += 1
        else:
            ctr['c20:calls'] += 1
            want = real_mod.real_bindcall(('bindcall', args, kw, ps))
            if want != ra:
                fails.append('bind_callsig: %s called with %s %s: bind_callsig gives %s, CPython gives %s' % (
                    core.fmt_params(A), args, dict(kw), ra, want))
        key = tuple(A)
        if key not in _C20_SEEN:
            _C20_SEEN.add(key)
            fails += _c20_per_sig(ps, ctr)
    elif op == 'makeup':
        _, nextra, ps = req
        named = [p[0] for p in ps if p[1] == 'po'] + [p[0] for p in ps if p[1] == 'pk'] + [p[0] for p in ps if p[1] == 'ko']
        nm = [core.NAMES.id(n) for n in named] + [900 + i for i in range(nextra)]
        kwn = nm + [core.NAMES.id(p[0]) for p in ps if p[1] == 'vp'] + [core.NAMES.id(p[0]) for p in ps if p[1] == 'vk']
        got = set(ra[2].split(';')) if ra[2] else set()
        ctr['c20:makeup'] += 1
        for i in range(len(nm) + 1):
            for r in range(len(kwn) + 1):
                for K in itertools.combinations(kwn, r):
                    e = '%s|%s' % ('.'.join(str(x) for x in nm[:i]) or '_', '.'.join(str(x) for x in sorted(K)) or '_')
                    if e not in got:
                        fails.append('make_up_callsigs: misses prefix %s with keywords %s for %s' % (nm[:i], K, core.fmt_params(ps)))
                        return fails
    return fails


def _sig_text(ps, ann=False):
    out = []
    prev = None
    for p in ps:
        n, k, d = p[0], p[1], p[2]
        a = p[3] if len(p) > 3 else None
        if prev == 'po' and k != 'po':
            out.append('/')
        if k == 'ko' and prev not in ('vp', 'ko'):
            out.append('*')
        t = {'vp': '*', 'vk': '**'}.get(k, '') + n
        if a is not None:
            t += ':%d' % a
        if d is not None:
            t += '=%r' % (core.dflt_obj(d),)
        out.append(t)
        prev = k
    if prev == 'po':
        out.append('/')
    return ', '.join(out)


def _c20_per_sig(ps, ctr):
    """string layer (validated only): s()/f()/func_from_sig round trips for every option combination;
    sort_callsigs partitions like bind_callsig and the function made by f returns its arguments by name"""
    import inspect, warnings
    from sigtools import support, specifiers
    fails = []
    ctr['c20:signatures'] += 1
    has_po = any(p[1] == 'po' for p in ps)
    # annotate a subset: first and last named parameter
    named_idx = [i for i, p in enumerate(ps)]
    aps = [tuple(p[:3]) + ((40 + i,) if (i % 2 == 0) else (None,)) for i, p in enumerate(ps)]
    text = _sig_text(aps)
    want = [(p[0], p[1], p[2], p[3]) for p in aps]
    combos = list(itertools.product([False, True], repeat=3))
    for (ua, upo, ukw) in combos:
        if has_po and (upo or ukw or ua):
            continue      # the property covers the modifiers spellings only for signatures without positional-only parameters
        for future in ((), ('annotations',)):
            for ret in (None, '99'):
                try:
                    with warnings.catch_warnings():
                        warnings.simplefilter('ignore')
                        kwargs = dict(use_modifiers_annotate=ua, use_modifiers_posoargs=upo, use_modifiers_kwoargs=ukw,
                                      future_features=future)
                        sig = support.s(text, ret, **kwargs) if ret else support.s(text, **kwargs)
                        sig = sig.evaluated()
                except Exception as e:  # noqa
                    fails.append('s-raises: s(%r, %r, annotate=%s posoargs=%s kwoargs=%s future=%s) raised %s: %s' % (
                        text, ret, ua, upo, ukw, future, type(e).__name__, e))
                    continue
                got = [(p.name, core.KIND_NAME[p.kind], None if p.default is p.empty else core.dflt_tok(p.default),
                        None if p.annotation is p.empty else p.annotation) for p in sig.parameters.values()]
                native = not (ua or upo or ukw)
                if native or not has_po:
                    a, b = got, want
                    if not native:
                        # up to the order of keyword-only parameters
                        a = [x for x in got if x[1] != 'ko'] + sorted(x for x in got if x[1] == 'ko')
                        b = [x for x in want if x[1] != 'ko'] + sorted(x for x in want if x[1] == 'ko')
                    if a != b:
                        fails.append('s-roundtrip: s(%r, annotate=%s posoargs=%s kwoargs=%s future=%s) = %s' % (
                            text, ua, upo, ukw, future, sig))
                    rgot = None if sig.return_annotation is sig.empty else sig.return_annotation
                    if rgot != (99 if ret else None):
                        fails.append('s-return: s(%r, %r, annotate=%s future=%s) has return annotation %r' % (text, ret, ua, future, rgot))
    # eager or postponed: with any set of future features, in any order, the raw signature is the one CPython gives the same def
    # compiled after the same `from __future__ import ...` line
    import inspect as _inspect
    for future in ((), ('annotations',), ('generator_stop',), ('annotations', 'generator_stop'), ('generator_stop', 'annotations'),
                   ('division', 'annotations', 'generator_stop')):
        for ret in (None, '99'):
            src_ = ('from __future__ import %s\n' % ', '.join(future) if future else '') + \
                'def f(%s)%s:\n    pass\n' % (text, ' -> ' + ret if ret else '')
            gl_ = {}
            try:
                exec(compile(src_, '<c20-future>', 'exec'), gl_)
                with warnings.catch_warnings():
                    warnings.simplefilter('ignore')
                    got_ = str(support.s(text, ret, future_features=future) if ret else support.s(text, future_features=future))
            except Exception as e:  # noqa
                fails.append('s-future-raises: s(%r, %r, future_features=%r) raised %s: %s' % (text, ret, future, type(e).__name__, e))
                continue
            want_ = str(_inspect.signature(gl_['f']))
            if got_ != want_:
                fails.append('s-future-features: s(%r, %r, future_features=%r) = %s, the same def compiled after `from __future__ import %s` '
                             'has %s' % (text, ret, future, got_, ', '.join(future), want_))
    # func_from_sig reproduces the signature
    try:
        with warnings.catch_warnings():
            warnings.simplefilter('ignore')
            sig0 = support.s(text, '99')
            f2 = support.func_from_sig(sig0)
            sig2 = specifiers.signature(f2)
        if str(sig2) != str(sig0):
            fails.append('func_from_sig: %s -> %s' % (sig0, sig2))
    except Exception as e:  # noqa
        fails.append('func_from_sig-raises: %r: %s %s' % (text, type(e).__name__, e))
    # ... also when the text of a default ends in a parenthesis or a bracket or contains the separators the string layer splits on
    # (values whose repr contains ', ' or ' -> ' are a separate, recorded limitation of the comma-splitting reader: finding D41)
    tricky = [(), frozenset(), 's)', [], {}, None, '(', 0.5, set(), 'x=1', 'a:b', '*', '/', '))', '=']
    try:
        with warnings.catch_warnings():
            warnings.simplefilter('ignore')
            for shift in range(3):
                prms = []
                j = 0
                for q in sig0.parameters.values():
                    if q.default is not q.empty:
                        prms.append(q.replace(default=tricky[(j + shift * 5 + len(ps)) % len(tricky)]))
                        j += 1
                    else:
                        prms.append(q)
                if not j:
                    break
                for rsig in (sig0.replace(parameters=prms), sig0.replace(parameters=prms, return_annotation=inspect.Signature.empty)):
                    f3 = support.func_from_sig(rsig)
                    sig3 = specifiers.signature(f3)
                    d3 = [(q.name, q.kind, q.default) for q in sig3.parameters.values()]
                    d0 = [(q.name, q.kind, q.default) for q in rsig.parameters.values()]
                    if d3 != d0 or str(sig3) != str(rsig):
                        fails.append('func_from_sig-defaults: %s -> %s' % (rsig, sig3))
                        break
    except Exception as e:  # noqa
        fails.append('func_from_sig-defaults-raises: %r: %s %s' % (text, type(e).__name__, e))
    if ctr['c20:signatures'] == 1:
        # signatures made one after the other, each binding the SAME name through `pre`: each keeps its own binding
        # (postponed annotations are evaluated later, in the globals of the function they were made with)
        for future in ((), ('annotations',)):
            try:
                with warnings.catch_warnings():
                    warnings.simplefilter('ignore')
                    made = [(val, support.s('a: T, *, b: T = 1', 'T', pre='T = %s' % val, future_features=future))
                            for val in ('int', 'str', 'bytes')]
                    fns = [(val, support.f('a: T', 'T', pre='T = %s' % val, future_features=future)) for val in ('int', 'str', 'bytes')]
                    for val, sg in made:
                        ev = sg.evaluated()
                        got = (ev.parameters['a'].annotation, ev.parameters['b'].annotation, ev.return_annotation)
                        if got != (eval(val),) * 3:
                            fails.append('s-pre-binding: s(..., pre=%r, future=%s) made among others evaluates its annotations to %r' % (
                                'T = ' + val, future, got))
                    import typing
                    for val, fn in fns:
                        hints = typing.get_type_hints(fn)
                        if hints.get('a') is not eval(val):
                            fails.append('s-pre-binding: f(..., pre=%r, future=%s): the annotation of a denotes %r' % ('T = ' + val, future, hints.get('a')))
            except Exception as e:  # noqa
                fails.append('s-pre-binding-raises: %s %s' % (type(e).__name__, e))
        # a return annotation that IS None (`-> None`) is a return annotation: every spelling, eager and postponed
        for kw in ({}, dict(use_modifiers_annotate=True), dict(future_features=('annotations',)),
                   dict(use_modifiers_kwoargs=True), dict(use_modifiers_annotate=True, future_features=('annotations',))):
            try:
                with warnings.catch_warnings():
                    warnings.simplefilter('ignore')
                    sg = support.s('a, *, b=1', None, **kw)
                    ra = sg.evaluated().return_annotation
                    f0 = support.f('a', None, **kw)
                if ra is not None:
                    fails.append('s-return-none: s(\'a, *, b=1\', None, %s) has return annotation %r, expected None' % (kw, ra))
                if 'return' not in getattr(f0, '__annotations__', {}) and not kw.get('use_modifiers_annotate'):
                    fails.append('s-return-none: f(\'a\', None, %s) has no return annotation' % (kw,))
            except Exception as e:  # noqa
                fails.append('s-return-none-raises: %s %s %s' % (kw, type(e).__name__, e))
        # deterministic probe of finding D41: a default whose text contains the separators read_sig splits on
        for dv in ((1, 2), 'a, b', ' -> '):
            psig = inspect.Signature([inspect.Parameter('a', inspect.Parameter.POSITIONAL_OR_KEYWORD, default=dv)])
            try:
                with warnings.catch_warnings():
                    warnings.simplefilter('ignore')
                    got = specifiers.signature(support.func_from_sig(psig))
                if str(got) != str(psig):
                    fails.append('func_from_sig-separator-in-default: %s -> %s' % (psig, got))
            except Exception as e:  # noqa
                fails.append('func_from_sig-separator-in-default: func_from_sig(%s) raised %s' % (psig, type(e).__name__))
    # sort_callsigs partitions like bind_callsig / the function made by f
    with warnings.catch_warnings():
        warnings.simplefilter('ignore')
        f = support.f(_sig_text([p[:3] for p in ps]))
        sig = specifiers.signature(f)
        cs = support.make_up_callsigs(sig, extra=1)
        valid, invalid = support.sort_callsigs(sig, cs)
    if len(valid) + len(invalid) != len(cs):
        fails.append('sort_callsigs: %d + %d != %d' % (len(valid), len(invalid), len(cs)))
    A = [(p[0], p[1], p[2]) for p in ps]
    for a, k, bound in valid:
        if version_dependent(A, list(k.items())):
            continue
        try:
            r = f(*a, **k)
        except TypeError:
            fails.append('sort_callsigs-valid-rejected: %s rejects *%s **%s listed as valid' % (sig, a, k))
            break
        if r != bound:
            fails.append('f-returns: f(%r)(*%s, **%s) returned %s, bind_callsig says %s' % (_sig_text(ps), a, k, r, bound))
            break
    for a, k in invalid:
        if version_dependent(A, list(k.items())):
            continue
        try:
            f(*a, **k)
        except TypeError:
            continue
        fails.append('sort_callsigs-invalid-accepted: %s accepts *%s **%s listed as invalid' % (sig, a, k))
        break
    # one batch holding every shape twice, with different positional values: each bound mapping must be that of ITS call
    cs2 = []
    for j, (a, k) in enumerate(cs):
        cs2.append((a, k))
        cs2.append((tuple(('alt', j, i) for i in range(len(a))), dict(k)))
    with warnings.catch_warnings():
        warnings.simplefilter('ignore')
        valid2, _inv2 = support.sort_callsigs(sig, cs2)
    for a, k, bound in valid2:
        if version_dependent(A, list(k.items())):
            continue
        try:
            r = f(*a, **k)
        except TypeError:
            continue
        if r != bound:
            fails.append('sort_callsigs-bound-of-another-call: in a batch of %d calls, %s called with *%s **%s returns %s, sort_callsigs lists %s' % (
                len(cs2), sig, a, k, r, bound))
            break
    # the same call shapes with values that are false / None: acceptance is about shapes, not about the values passed
    falsy = [None, 0, '', (), False]
    for a, k in cs:
        if version_dependent(A, list(k.items())):
            continue
        a2 = tuple(falsy[j % len(falsy)] for j in range(len(a)))
        k2 = {name: ('kw', name) for name in k}
        try:
            want = ('ok', f(*a2, **k2))
        except TypeError:
            want = ('typeerror',)
        try:
            got = ('ok', support.bind_callsig(sig, a2, k2))
        except TypeError:
            got = ('typeerror',)
        if got != want:
            fails.append('bind_callsig-falsy-values: bind_callsig(%s, %r, %r) gives %s, calling the function made by f gives %s' % (
                sig, a2, k2, got, want))
            break
    return fails


# ----------------------------------------------------------------------------- C19
def c19(req, ra, ctr):
    from . import real_mod
    if req[0].startswith('rt:'):
        return rt_problems(req, ra)
    if req[0] != 'partialsig':
        return []
    _, n, kw, ps = req
    F = [(p[0], p[1], p[2]) for p in ps]
    fails = []
    if ra[0] == 'ok' and ra[1] and ra[1][0] == 'plain-and-auto-differ':
        return ['plain-and-auto-differ: signatures.signature and sigtools.signature disagree on partial(%s, %d args, %s): %s' % (
            core.fmt_params(F), n, dict(kw), ra[1][1:])]
    if any(q[1] == 'po' and q[0] in dict(kw) for q in F):
        ctr['c19:outside-quantifier'] += 1     # a bound keyword names a positional-only parameter: version-dependent
        return []
    f, p = real_mod.make_partial(ps, n, kw)

    def really(m, K):
        try:
            p(*([0] * m), **{k: 0 for k in K})
        except TypeError:
            return False
        return True
    bound = dict(kw)
    if ra[0] == 'err':
        ctr['c19:raise'] += 1
        if ra[1] != 'ValueError':
            fails.append('bad-exception: signature(partial) raised %s' % ra[1])
        for m, K in shapes_for([F], foreign=('zz',)):
            if really(m, K):
                fails.append('raise-but-callable: signature(partial(%s, %d args, %s)) raised but the partial accepts (%d,%s)' % (
                    core.fmt_params(F), n, bound, m, K))
                break
        return fails
    R = P_of(ra[1])
    ctr['c19:ok'] += 1
    for m, K in shapes_for([F], foreign=('zz',)):
        if not non_colliding(R, [F], K):
            continue
        a1 = acc(R, m, K)
        a2 = really(m, K)
        if a1 != a2:
            fails.append('inexact: partial(%s, %d args, %s) reported as %s which %s (%d,%s); the partial object %s it' % (
                core.fmt_params(F), n, bound, core.fmt_params(R), 'accepts' if a1 else 'rejects', m, K,
                'accepts' if a2 else 'rejects'))
            break
    # shape clauses
    Rn = {p[0]: p for p in R}
    kinds = {p[0]: p[1] for p in F}
    pos = [p[0] for p in F if p[1] in ('po', 'pk')]
    for x in pos[:n]:
        if x in Rn:
            fails.append('bound-positional-visible: %s still in %s' % (x, core.fmt_params(R)))
    hit_pk = [k for k in bound if kinds.get(k) == 'pk']
    if hit_pk:
        first = min(pos.index(k) for k in hit_pk)
        for x in pos[first:]:
            if x in Rn and Rn[x][1] != 'ko':
                fails.append('not-keyword-only: %s should be keyword-only in %s' % (x, core.fmt_params(R)))
        if any(p[1] == 'vp' for p in R):
            fails.append('varargs-kept: *args still in %s' % core.fmt_params(R))
    for k, v in bound.items():
        q = Rn.get(k)
        if kinds.get(k) in ('vp', 'vk'):
            # named like *args / **kwargs themselves: shown only once that parameter is gone (exactness is judged above)
            ctr['c19:star-named-keyword'] += 1
            if q is not None and (q[1] not in ('ko', kinds[k]) or (q[1] == 'ko' and q[2] != v)):
                fails.append('bound-keyword: %s=%s shows as %s in %s' % (k, v, q, core.fmt_params(R)))
            continue
        if q is None or q[1] != 'ko' or q[2] != v:
            fails.append('bound-keyword: %s=%s shows as %s in %s' % (k, v, q, core.fmt_params(R)))
    src = {core.NAMES.name(k): list(v) for k, v in ra[2]}
    depths = dict(ra[3])
    for k in bound:
        if k not in kinds and src.get(k) != [2]:
            fails.append('absorbed-keyword-source: %s absorbed by **kwargs has sources %s, expected the partial object' % (k, src.get(k)))
    if depths.get(2) != 0 or depths.get(1) != 1:
        fails.append('partial-depth: +depths = %s (partial object is 2, function is 1)' % depths)
    return fails


# ----------------------------------------------------------------------------- C04 (algebra part)
def c04(req, ra, ctr):
    """forwards(outer, inner, n, *names, flags) == embed(outer, mask(inner, n, *names, ...)) in parameters and
    provenance, on the real code"""
    if req[0].startswith('rt:'):
        if ra[0] == 'ok' and len(ra) > 2 and isinstance(ra[2], str):
            ctr['c04:' + ra[2].split(':')[0]] += 1
        return rt_problems(req, ra)
    if req[0] != 'forwards':
        return []
    import warnings
    _, n, nms, fl, o, i = req
    ctr['c04:forwards'] += 1
    with warnings.catch_warnings():
        warnings.simplefilter('ignore')
        try:
            inner = core.mk_sig(i)
            if fl[4]:
                params = [p if p.kind in (p.VAR_POSITIONAL, p.VAR_KEYWORD) else p.replace(default=None)
                          for p in inner.parameters.values()]
                inner = inner.replace(parameters=params)
            m = signatures.mask(inner, n, *nms, hide_args=fl[0], hide_kwargs=fl[1])
            want = core.canon_sig(signatures.embed(core.mk_sig(o), m, use_varargs=fl[2], use_varkwargs=fl[3]))
        except Exception as e:  # noqa
            want = core.canon_exc(e)
    if want != ra:
        return ['forwards-is-not-embed-of-mask: %s: forwards gives %s, embed(outer, mask(inner)) gives %s' % (
            engine.line(req), ra[:4], want[:4])]
    return []


# ----------------------------------------------------------------------------- runtime-only requests
def rt_problems(req, ra):
    if req[0].startswith('rt:') and ra[0] == 'ok' and ra[1]:
        return list(ra[1])
    return []


# ----------------------------------------------------------------------------- C14
def c14(req, ra, ctr):
    from . import real_rt
    op = req[0]
    fails = rt_problems(req, ra)
    if op in ('pyeq', 'pyne'):
        a, b = req[1], req[2]
        if ra[0] != 'ok':
            fails.append('comparison-raises: %s %s %s gave %s' % (a, '==' if op == 'pyeq' else '!=', b, ra))
            return fails
        ctr['c14:comparisons'] += 1
        if op == 'pyeq':
            rev = real_rt.real_pyeq(('pyeq', b, a))
            if rev != ra:
                fails.append('asymmetric: %s == %s is %s but reversed is %s' % (a, b, ra, rev))
            if a == b and ra[1] is not True:
                fails.append('irreflexive: %s == itself is %s' % (a, ra))
            if ra[1] is True:
                h = real_rt.real_pyeq(('hasheq', a, b))
                if h != ('ok', True):
                    fails.append('eq-hash: %s == %s but hashes %s' % (a, b, h))
            # same data, plain vs upgraded
            if a[0] in 'Uu' and b[0] in 'Sp' and a[0].lower() == {'S': 'u', 'p': 'u'}[b[0]].lower() and False:
                pass
        else:
            e = real_rt.real_pyeq(('pyeq', a, b))
            if e[0] == 'ok' and e[1] == ra[1]:
                fails.append('ne-is-not-not-eq: %s != %s is %s and == is %s' % (a, b, ra[1], e[1]))
    elif op == 'hasheq':
        if ra == ('unhashable',) and req[1][0] != 'O' and req[2][0] != 'O':
            fails.append('unhashable: %s or %s is unhashable although plain inspect objects are hashable' % (req[1], req[2]))
    return fails


# ----------------------------------------------------------------------------- C16 (cleanup part) / C18 (histories)
def c16(req, ra, ctr):
    fails = rt_problems(req, ra)
    if req[0] == 'cleanup':
        _, fault, iw, is_, cw, cs = req
        ctr['c16:cleanup-runs'] += 1
        if ra[0] != 'ok':
            return ['cleanup-raised: %s' % (ra,)]
        if (ra[1], ra[2], ra[3], ra[4]) != (iw, is_, cw, cs):
            fails.append('attributes-changed: cleanup_functools_wrapper with a fault at outside call %s turned attributes '
                         '(inst __wrapped__=%s, inst __signature__=%s, class %s/%s) into %s' % (fault, iw, is_, cw, cs, ra[1:5]))
    return fails


def c18(req, ra, ctr):
    fails = rt_problems(req, ra)
    if req[0] == 'cache':
        _, variant, ops = req
        ctr['c18:histories'] += 1
        if ra[0] == 'ok' and ra[1] and ra[1][0] == 'problem':
            return ['%s (variant %s, history %s)' % (ra[1][1], variant, ','.join(ops))]
        held = set()
        wr = set()
        for op in ops:
            k, _, i = op.partition(':')
            i = int(i) if i else None
            if k == 'new':
                held.add(i)
            elif k == 'get' and i in held:
                wr.add(i)
            elif k == 'dropw':
                wr.discard(i)
            elif k == 'dropi':
                held.discard(i)
        for i in ra[1]:
            if i not in held and i not in wr:
                fails.append('retained: instance %d is still alive after the caller dropped it and everything obtained from it '
                             '(variant %s, history %s)' % (i, variant, ','.join(ops)))
        for i in held | wr:
            if i not in ra[1]:
                fails.append('reclaimed-early: instance %d died while still referenced (variant %s, history %s)' % (i, variant, ','.join(ops)))
    return fails


def c17(req, ra, ctr):
    fails = rt_problems(req, ra)
    if req[0] == 'sched':
        _, n, iw, schedule, events = req
        ctr['c17:schedules'] += 1
        if ra[0] != 'ok':
            return ['sched-error: %s' % (ra,)]
        _, final, done, saw = ra
        if not done:
            fails.append('not-finished: threads did not finish under line schedule %s' % (schedule,))
        if final != iw:
            fails.append('not-restored: after all threads finished __wrapped__ is %s, was %s; shared accesses: %s' % (final, iw, events))
        if any(s for s in saw):
            ctr['c17:window-schedules'] += 1
            fails.append('cleanup-window: under some interleaving the body of one thread runs while another thread has put '
                         '__wrapped__ back (it then follows the wrapped function): shared accesses %s' % (events,))
    return fails


def c05(req, ra, ctr):
    fails = rt_problems(req, ra)
    if req[0].startswith('rt:') and ra[0] == 'ok' and len(ra) > 2 and isinstance(ra[2], str):
        ctr['c05:' + ra[2].split(':')[0]] += 1
    return fails


c06 = c05


c07 = c05


c13 = c05
c11 = c05
