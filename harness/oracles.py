"""harness/oracles.py — the properties themselves, executable against the REAL code.

Written from the property texts (not from the Lean model).  Used (a) to look for a concrete
failing input when a proof obligation or the correspondence breaks, (b) on every run as a
sanity layer.  They are tests, not proofs: the theorems carry the quantifier.

Each oracle is `oracle(req, real_answer, counters) -> [failure text, ...]`.
Acceptance is decided by `core.accepts` (CPython's binding on shapes), itself validated
against really calling def functions by the `bind` stream on every run.
"""
import itertools
from . import core, engine
from .core import signatures, S

acc = core.accepts


def P_of(canon_params):
    """canonical params (ids) -> (name:str, kind, dflt)"""
    return [(core.NAMES.name(p[0]), p[1], p[2]) for p in canon_params]


def names_of(ps, kinds=('po', 'pk', 'vp', 'ko', 'vk')):
    return [p[0] for p in ps if p[1] in kinds]


def kw_passable(ps):
    return {p[0] for p in ps if p[1] in ('pk', 'ko')}


def non_colliding(R, inputs, K):
    """every keyword is keyword-passable in R or is not a parameter name of any input
    (R None: the operation raised; only the second disjunct can hold)"""
    kp = kw_passable(R) if R is not None else set()
    allnames = set()
    for s in inputs:
        allnames.update(p[0] for p in s)
    return all(k in kp or k not in allnames for k in K)


def shapes_for(inputs, extra_pos=2, foreign=('zz',), maxk=None):
    npos = max([sum(1 for p in s if p[1] in ('po', 'pk')) for s in inputs] + [0])
    pool = []
    for s in inputs:
        for p in s:
            if p[0] not in pool:
                pool.append(p[0])
    pool += list(foreign)
    for n in range(npos + extra_pos + 1):
        for r in range(len(pool) + 1):
            if maxk is not None and r > maxk:
                break
            for K in itertools.combinations(pool, r):
                yield n, K


# ----------------------------------------------------------------------------- C03
def _mask_real(d, n, nms, fl=(False,) * 4):
    return core.run_real(signatures.mask, core.mk_sig(d), n, *nms, hide_args=fl[0], hide_kwargs=fl[1],
                         hide_varargs=fl[2], hide_varkwargs=fl[3])


def c03(req, ra, ctr):
    if req[0] != 'mask':
        return []
    _, n, nms, fl, d = req
    s = [(p[0], p[1], p[2]) for p in d['params']]
    fails = []
    po_names = set(names_of(s, ('po',)))
    if len(set(nms)) != len(nms) or (set(nms) & po_names):
        ctr['c03:outside-quantifier'] += 1
        return []
    if ra[0] == 'err' and ra[1] != 'ValueError':
        return ['mask raised %s (only ValueError is allowed)' % ra[1]]
    flags0 = not any(fl)
    pool_inputs = [s]
    if flags0:
        if ra[0] == 'ok':
            R = P_of(ra[1])
            ctr['c03:exact-checked'] += 1
            for m, K in shapes_for([s], foreign=('zz', 'zy')):
                if set(K) & set(nms):
                    continue
                if not non_colliding(R, [s], K):
                    continue
                a1 = acc(R, m, K)
                a2 = acc(s, n + m, tuple(nms) + K)
                if a1 != a2:
                    fails.append('inexact: mask%s n=%d names=%s result %s %s call (%d,%s) but sig %s (%d,%s)' % (
                        core.fmt_params(s), n, nms, core.fmt_params(R), 'accepts' if a1 else 'rejects', m, K,
                        'accepts' if a2 else 'rejects', n + m, tuple(nms) + K))
                    break
            # existence: mask returned, so sig can be passed those arguments
            if not any(acc(s, n + m, tuple(nms) + K) for m, K in shapes_for([s], foreign=()) if not set(K) & set(nms)):
                fails.append('returned-but-impossible: mask%s n=%d names=%s -> %s' % (core.fmt_params(s), n, nms, core.fmt_params(R)))
            # permutation invariance (full equality, provenance included)
            if len(nms) > 1:
                rb = _mask_real(d, n, tuple(sorted(nms)))
                if rb != ra:
                    fails.append('order-dependent: names=%s -> %s ; sorted -> %s' % (nms, ra[:3], rb[:3]))
            if n == 0 and not nms:
                if ra != core.canon_sig(core.mk_sig(d)):
                    fails.append('mask(sig, 0) != sig for %s' % core.fmt_params(s))
            if not nms:
                r1 = core.mk_sig(d)
                try:
                    import warnings
                    with warnings.catch_warnings():
                        warnings.simplefilter('ignore')
                        mid = signatures.mask(r1, n)
                        for m in (0, 1, 2):
                            try:
                                a = core.canon_sig(signatures.mask(mid, m))
                            except ValueError as e:
                                a = core.canon_exc(e)
                            b = _mask_real(d, n + m, ())
                            if a != b:
                                fails.append('mask(mask(s,%d),%d) != mask(s,%d) for %s: %s vs %s' % (
                                    n, m, n + m, core.fmt_params(s), a[:2], b[:2]))
                except ValueError:
                    pass
        else:
            ctr['c03:raise-checked'] += 1
            for m, K in shapes_for([s], foreign=()):
                if set(K) & set(nms):
                    continue
                if acc(s, n + m, tuple(nms) + K):
                    fails.append('raise-but-possible: mask%s n=%d names=%s raised, yet sig accepts (%d,%s)' % (
                        core.fmt_params(s), n, nms, n + m, tuple(nms) + K))
                    break
    else:
        # hide flags: only remove parameters; soundness for some choice of the hidden arguments
        if ra[0] == 'ok':
            R = P_of(ra[1])
            ctr['c03:hide-checked'] += 1
            sp = {p[0]: p for p in s}
            for p in R:
                q = sp.get(p[0])
                if q is None:
                    fails.append('hide flags added parameter %s: %s -> %s' % (p[0], core.fmt_params(s), core.fmt_params(R)))
            kinds = {p[1] for p in R}
            if fl[0] and kinds & {'po', 'pk', 'vp'}:
                fails.append('hide_args left a positional parameter: %s' % core.fmt_params(R))
            if fl[1] and kinds & {'pk', 'ko', 'vk'}:
                fails.append('hide_kwargs left a keyword parameter: %s' % core.fmt_params(R))
            if fl[2] and 'vp' in kinds:
                fails.append('hide_varargs left *args: %s' % core.fmt_params(R))
            if fl[3] and 'vk' in kinds:
                fails.append('hide_varkwargs left **kwargs: %s' % core.fmt_params(R))
            # soundness
            npos_s = sum(1 for p in s if p[1] in ('po', 'pk'))
            hidden_pos = range(0, npos_s + 2) if fl[0] else (None,)
            kwpool = [p[0] for p in s if p[1] in ('pk', 'ko')] + ['zh']
            hidden_kw = [H for r in range(len(kwpool) + 1) for H in itertools.combinations(kwpool, r)] if fl[1] else [()]
            for m, K in shapes_for([s], foreign=('zz',)):
                if set(K) & set(nms):
                    continue
                if not non_colliding(R, [s], K):
                    continue
                if not acc(R, m, K):
                    continue
                ok = False
                # hide_args hides *all* positional arguments of the forwarding call (n included) and
                # hide_kwargs *all* its keyword arguments (the given names included): the code ignores
                # n / names then, and so does this reading of "some choice of the hidden arguments".
                forced = () if fl[1] else tuple(nms)
                for e in hidden_pos:
                    tot = (e if e is not None else n) + m
                    for H in hidden_kw:
                        if set(H) & (set(K) | set(forced)):
                            continue
                        if acc(s, tot, forced + K + H):
                            ok = True
                            break
                    if ok:
                        break
                if not ok:
                    fails.append('hide-unsound: mask%s n=%d names=%s flags=%s -> %s accepts (%d,%s) but sig accepts it for no choice of hidden arguments' % (
                        core.fmt_params(s), n, nms, fl, core.fmt_params(R), m, K))
                    break
    return fails
