"""harness/progs.py — programs of the forwarding grammar (Model/Grammar.lean): generation, protocol tokens,
Python source text, loading (source registered in linecache so that inspect.getsource works without files),
execution with recording callees, and an independent Python computation of the ground truth."""
import ast, itertools, linecache, random, sys, types, functools
from . import core
from .core import P

VA, VK = 'args', 'kwargs'
CALLEE_SIGS = None


def callee_universe():
    global CALLEE_SIGS
    if CALLEE_SIGS is None:
        CALLEE_SIGS = [s for s in core.universe('xyz', 2)]
    return CALLEE_SIGS


# ----------------------------------------------------------------------------- generation
def rand_callee_expr(rng, route, k):
    if route == 'global':
        return 'g%d' % k
    if route == 'attr':
        return 'ns.g%d' % k
    if route == 'attr2':
        return 'ns.sub.g%d' % k
    if route == 'param':
        return 'cb'
    if route == 'closure':
        return 'g%d' % k
    if route == 'self':
        return 'self.m%d' % k
    raise ValueError(route)


def rand_fwd(rng, route, ncallees, nested=False, callees=None):
    k = rng.randrange(ncallees)
    npos = rng.choice([0, 0, 0, 1, 2])
    # a keyword naming a positional-only parameter of the callee is version-dependent: excluded by the properties
    po = {q[0] for q in callees[0 if route == 'param' else k] if q[1] == 'po'} if callees else set()     # (route param: every call goes to g0)
    kws = [x for x in rng.sample(['x', 'y', 'q'], rng.choice([0, 0, 1])) if x not in po]
    va = rng.random() < 0.8
    vk = rng.random() < 0.8
    target = rng.choice([None, None, 'r0', 'r1'])
    return ('fwd', rand_callee_expr(rng, route, k), npos, kws, va, vk, target, k)


def rand_stmt(rng, route, ncallees, depth=0, callees=None):
    r = rng.random()
    if r < 0.42:
        return rand_fwd(rng, route, ncallees, callees=callees)
    if r < 0.50:
        return ('rebind', rng.choice('AK'))
    if r < 0.57:
        s = rng.choice('AK')
        return ('mutate', s, 'clear' if s == 'K' else 'count')
    if r < 0.61:
        return ('delete', rng.choice('AK'))
    if r < 0.69:
        return ('hand', rng.choice('AK'), 'h0')
    if r < 0.76:
        return ('decoy', 'h1', rng.choice([0, 1, 2]))
    if r < 0.82:
        return ('unrel', rng.choice(['r0', 'r1', 'r2']))
    if r < 0.86:
        return ('nlr', rng.choice('AK'))
    if r < 0.93 and depth < 2:
        return ('block', [rand_stmt(rng, route, ncallees, depth + 1, callees) for _ in range(rng.randint(1, 3))])
    if depth < 2:
        return ('nested', [rand_nstmt(rng, route, ncallees, depth + 1, callees) for _ in range(rng.randint(1, 3))])
    return ('unrel', 'r2')


def rand_nstmt(rng, route, ncallees, depth=0, callees=None):
    r = rng.random()
    if r < 0.6:
        return rand_fwd(rng, route, ncallees, nested=True, callees=callees)
    if r < 0.75:
        return ('decoy', 'h1', rng.choice([0, 1]))
    if r < 0.9 or depth >= 3:
        return ('unrel', rng.choice(['r0', 'r1']))
    return ('block', [rand_nstmt(rng, route, ncallees, depth + 1, callees) for _ in range(rng.randint(1, 2))])


def rand_prog(rng, maxstmts=5):
    route = rng.choice(['global', 'global', 'global', 'attr', 'attr2', 'param', 'closure', 'self'])
    ncallees = rng.choice([1, 1, 2])
    callees = [rng.choice(callee_universe()) for _ in range(ncallees)]
    params = rng.sample(['a', 'b'], rng.choice([0, 1, 1, 2]))
    if route == 'param':
        params = ['cb'] + params
    if route == 'self':
        params = ['self'] + params
    body = [rand_stmt(rng, route, ncallees, 0, callees) for _ in range(rng.randint(1, maxstmts))]
    if not any(s[0] == 'fwd' for s in body):
        body.insert(rng.randrange(len(body) + 1), rand_fwd(rng, route, ncallees, callees=callees))
    return dict(params=params, va=VA, vk=VK, body=body, route=route, callees=callees)


# ----------------------------------------------------------------------------- protocol tokens
def expr_tokens(e):
    from . import treeser
    node = ast.parse(e, mode='eval').body
    return treeser.ser(node, [])


def stmt_tokens(s):
    k = s[0]
    nid = lambda n: str(core.NAMES.id(n))  # noqa
    if k == 'fwd':
        _, callee, npos, kws, va, vk, target = s[:7]
        return ['fwd'] + expr_tokens(callee) + [str(npos), str(len(kws))] + [nid(x) for x in kws] + \
            ['1' if va else '0', '1' if vk else '0', '-' if target is None else nid(target)]
    if k == 'rebind':
        return ['rebind', s[1]]
    if k == 'mutate':
        return ['mutate', s[1], nid(s[2])]
    if k == 'delete':
        return ['delete', s[1]]
    if k == 'hand':
        return ['hand', s[1], nid(s[2])]
    if k == 'decoy':
        return ['decoy', nid(s[1]), str(s[2])]
    if k == 'unrel':
        return ['unrel', nid(s[1])]
    if k == 'nlr':
        return ['nlr', s[1]]
    if k in ('block', 'nested'):
        out = [k, str(len(s[1]))]
        for t in s[1]:
            out += stmt_tokens(t)
        return out
    raise ValueError(s)


def prog_tokens(p):
    nid = lambda n: str(core.NAMES.id(n))  # noqa
    out = [str(len(p['params']))] + [nid(x) for x in p['params']] + [nid(p['va']), nid(p['vk']), str(len(p['body']))]
    for s in p['body']:
        out += stmt_tokens(s)
    return out


# ----------------------------------------------------------------------------- source text
def star_name(p, s):
    return p['va'] if s == 'A' else p['vk']


def stmt_source(p, s, ind):
    k = s[0]
    pad = '    ' * ind
    if k == 'fwd':
        _, callee, npos, kws, va, vk, target = s[:7]
        args = ['1'] * npos + (['*' + p['va']] if va else []) + ['%s=1' % x for x in kws] + (['**' + p['vk']] if vk else [])
        return ['%s%s%s(%s)' % (pad, '' if target is None else target + ' = ', callee, ', '.join(args))]
    if k == 'rebind':
        return ['%s%s = %s' % (pad, star_name(p, s[1]), "''" if s[1] == 'A' else '{}')]
    if k == 'mutate':
        return ['%s%s.%s()' % (pad, star_name(p, s[1]), s[2])] if s[1] == 'K' else \
            ['%s%s.%s()' % (pad, star_name(p, s[1]), s[2])]
    if k == 'delete':
        return ['%sdel %s' % (pad, star_name(p, s[1]))]
    if k == 'hand':
        return ['%s%s(%s)' % (pad, s[2], star_name(p, s[1]))]
    if k == 'decoy':
        return ['%s%s(%s)' % (pad, s[1], ', '.join(['1'] * s[2]))]
    if k == 'unrel':
        return ['%s%s = 1' % (pad, s[1])]
    if k == 'nlr':
        n = star_name(p, s[1])
        return ['%sdef sub():' % pad, '%s    nonlocal %s' % (pad, n), '%s    %s = %s' % (pad, n, "''" if s[1] == 'A' else '{}')]
    if k == 'block':
        out = ['%sif 1:' % pad]
        for t in s[1]:
            out += stmt_source(p, t, ind + 1)
        return out
    if k == 'nested':
        out = ['%sdef sub():' % pad]
        for t in s[1]:
            out += stmt_source(p, t, ind + 1)
        return out
    raise ValueError(s)


def wrapper_source(p, name='wrapper', ind=0, decorators=()):
    pad = '    ' * ind
    params = list(p['params']) + ['*' + p['va'], '**' + p['vk']]
    out = ['%s%s' % (pad, d) for d in decorators]
    out.append('%sdef %s(%s):' % (pad, name, ', '.join(params)))
    for s in p['body']:
        out += stmt_source(p, s, ind + 1)
    return out


def fix_mutate_A(src_lines):
    # `args.count()` needs an argument to run; the AST shape used by the model has none, so the *executed*
    # variant differs in a constant argument only when executing (see module_source(execute=True))
    return [l.replace('.count()', '.count(1)') for l in src_lines]


def module_source(p, execute=False, decorators=()):
    """the whole module: recording callees, helpers and the wrapper, placed according to the callee route"""
    lines = ['import functools', 'from sigtools import modifiers', 'REC = []', '']
    for k, sig in enumerate(p['callees']):
        lines.append(core.def_source(sig, name='g%d' % k, body='REC.append(%d)' % k).rstrip('\n'))
    lines += ['def h0(d):', '    d.clear() if isinstance(d, dict) else None', 'def h1(*a):', '    pass', '']
    route = p['route']
    w = wrapper_source(p, decorators=decorators)
    if execute:
        w = fix_mutate_A(w)
    if route in ('global', 'param'):
        lines += w
        if route == 'param':
            lines += ['target = functools.partial(wrapper, g0)']
        else:
            lines += ['target = wrapper']
    elif route in ('attr', 'attr2'):
        lines += ['class _NS: pass', 'ns = _NS()', 'ns.sub = _NS()']
        for k in range(len(p['callees'])):
            lines += ['ns.g%d = g%d' % (k, k), 'ns.sub.g%d = g%d' % (k, k)]
        lines += w + ['target = wrapper']
    elif route == 'closure':
        lines += ['def factory(%s):' % ', '.join('g%d' % k for k in range(len(p['callees'])))]
        inner = wrapper_source(p, ind=1, decorators=decorators)
        if execute:
            inner = fix_mutate_A(inner)
        lines += inner + ['    return wrapper',
                          'target = factory(%s)' % ', '.join('g%d' % k for k in range(len(p['callees'])))]
        # keep module-level names g0.. from resolving the closure route by accident: after the wrapper exists, the
        # module-level names are rebound to a decoy with another signature (the closure cells keep the real callees)
        lines += ['_callees = [%s]' % ', '.join('g%d' % k for k in range(len(p['callees'])))]
        lines += ['def _decoy(decoy_only, *, decoy_kw):', '    REC.append("decoy")']
        lines += ['g%d = _decoy' % k for k in range(len(p['callees']))]
    elif route == 'self':
        lines += ['class C(object):']
        for k, sig in enumerate(p['callees']):
            msig = (P('self', 'pk'),) + tuple(sig)
            lines += ['    ' + l for l in core.def_source(msig, name='m%d' % k, body='REC.append(%d)' % k).rstrip('\n').split('\n')]
        inner = wrapper_source(p, ind=1, decorators=decorators)
        if execute:
            inner = fix_mutate_A(inner)
        lines += inner + ['target = C().wrapper']
    return '\n'.join(lines) + '\n'


_COUNTER = itertools.count()


def load_module(source):
    """exec the source as a module whose text inspect.getsource can find (linecache, no file)"""
    fname = '<verif-prog-%d-%d>' % (id(source) & 0xffff, next(_COUNTER))
    linecache.cache[fname] = (len(source), None, source.splitlines(True), fname)
    mod = types.ModuleType('verif_prog_%d' % next(_COUNTER))
    mod.__file__ = fname
    code = compile(source, fname, 'exec')
    exec(code, mod.__dict__)
    return mod, fname


def unload(fname):
    linecache.cache.pop(fname, None)


# ----------------------------------------------------------------------------- ground truth in Python (independent of Lean)
def py_truth(p):
    """[(stmt, useVa, useVk, hideA, hideK)] for forwarding calls: top-level in order, then nested ones"""
    tA = tK = False
    top = []

    def taints(s):
        k = s[0]
        a = kk = False
        if k in ('rebind', 'mutate', 'delete', 'nlr'):
            a, kk = s[1] == 'A', s[1] == 'K'
        elif k == 'hand':
            kk = s[1] == 'K'
        return a, kk

    def mk(s, tA, tK):
        va, vk = s[4], s[5]
        ua, uk = va and not tA, vk and not tK
        if ua or uk:
            return [(s, ua, uk, va and tA, vk and tK)]
        return []

    def walk(stmts):
        nonlocal tA, tK
        for s in stmts:
            if s[0] == 'fwd':
                top.extend(mk(s, tA, tK))
            elif s[0] == 'block':
                walk(s[1])
            else:
                a, kk = taints(s)
                tA, tK = tA or a, tK or kk
    walk(p['body'])
    nested = []

    def nwalk(stmts, inside):
        for s in stmts:
            if s[0] == 'fwd' and inside:
                nested.extend(mk(s, tA, tK))
            elif s[0] == 'block':
                nwalk(s[1], inside)
            elif s[0] == 'nested':
                nwalk(s[1], True)
    nwalk(p['body'], False)
    return top + nested
