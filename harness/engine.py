"""harness/engine.py — correspondence engine: real code vs Lean model on the same requests.

A *request* is a plain tuple (picklable).  `line(req)` is what the Lean driver reads,
`real(req)` runs the real sigtools code and returns the canonical answer.
Requests are produced in chunks; chunks are processed by a process pool; each worker runs the
real code in-process, pipes the same lines to the compiled Lean driver and compares answers
under the *projection* of the property being checked (so that, e.g., a provenance-only
difference is a C08 matter and not a C01 one).
"""
import os, sys, time, random, collections, multiprocessing, itertools, functools
from functools import partial
from . import core
from .core import S, signatures


# ----------------------------------------------------------------------------- requests
def line(req):
    op = req[0]
    if op.startswith('rt:'):
        return 'rt-only ' + repr(req)[:300]
    if op == 'merge':
        return 'merge %d %s' % (len(req[1]), ' '.join(core.sig_line(d) for d in req[1]))
    if op == 'embed':
        return 'embed %d%d %d %s' % (req[1], req[2], len(req[3]), ' '.join(core.sig_line(d) for d in req[3]))
    if op == 'mask':
        _, n, nms, fl, d = req
        return 'mask %d %s %s %s' % (n, core.names_line(nms), ''.join('1' if b else '0' for b in fl), core.sig_line(d))
    if op == 'maskp':
        _, n, kw, pobj, d = req
        kws = '.'.join('%d=%d' % (core.NAMES.id(k), v) for k, v in kw) or '_'
        return 'maskp %d %s %d %s' % (n, kws, pobj, core.sig_line(d))
    if op == 'forwards':
        _, n, nms, fl, o, i = req
        return 'forwards %d %s %s %s %s' % (n, core.names_line(nms), ''.join('1' if b else '0' for b in fl),
                                           core.sig_line(o), core.sig_line(i))
    if op == 'sort':
        return 'sort ' + core.sig_line(req[1])
    if op == 'apply':
        return 'apply ' + core.sig_line(req[1])
    if op == 'accepts':
        _, n, K, ps = req
        return 'accepts %d %s %s' % (n, core.names_line(K), core.params_line(ps))
    if op == 'visit':
        from . import real_disc
        return real_disc.visit_line(req)
    if op == 'wlist':
        return 'wlist ' + ('.'.join('W' if l == 'W' else 'S%d' % l for l in req[1]) or '_')
    if op in ('render', 'pvisit', 'ptruth', 'pauto', 'pautoh'):
        from . import real_disc
        return real_disc.prog_line(op, req[1]) + (' pmask' if False else '')
    if op in ('pyeq', 'pyne', 'hasheq'):
        from . import real_rt
        return '%s %s %s' % (op, real_rt.obj_line(req[1]), real_rt.obj_line(req[2]))
    if op == 'sched':
        return 'threads %d %s - - - %s (line schedule %s)' % (req[1], req[2], '?', '.'.join(str(x) for x in req[3]))
    if op == 'cleanup':
        return 'cleanup ' + ' '.join('-' if x is None else str(x) for x in req[1:])
    if op == 'cache':
        _, variant, ops = req
        return 'cache %s ' % ('noStore' if variant.startswith('pokself') else 'weakValue') + (','.join(ops) or '_')
    if op == 'partialsig':
        _, n, kw, ps = req
        kws = '.'.join('%d=%d' % (core.NAMES.id(k), v) for k, v in kw) or '_'
        return 'maskp %d %s 2 %s' % (n, kws, core.sig_line(core.D(ps, fn=1)))
    if op in ('bindcall', 'bindcallsig'):
        _, args, kw, ps = req
        return '%s %s %s %s' % (op, vals_line(args), kw_line(kw), core.params_line(ps))
    if op == 'prepare':
        _, P, W, ps = req
        return 'prepare %s %s %s' % (core.names_line(P), core.names_line(W), core.params_line(ps))
    if op == 'retrievebound':
        return 'retrievebound %s' % core.sig_line(req[1])
    if op == 'preparesig':      # the wrapper object is callable 7, the function callable 1
        P, W, ps = req[1:4]
        return 'preparesig %s %s 1 7 %s' % (core.names_line(P), core.names_line(W), core.sig_line(core.D(ps, fn=1)))
    if op == 'deccall':
        _, P, W, args, kw, ps = req
        return 'deccall %s %s %s %s %s' % (core.names_line(P), core.names_line(W), vals_line(args), kw_line(kw),
                                        core.params_line(ps))
    if op == 'deccallst':     # two stacked decorators: the model sees one translator with both selections (theorem prepare_set_ext)
        _, order, P, W, args, kw, ps = req
        return 'deccall %s %s %s %s %s' % (core.names_line(P), core.names_line(W), vals_line(args), kw_line(kw),
                                        core.params_line(ps))
    if op == 'deccallm':      # bound method: the model sees the function with `self` and the instance as first argument
        _, P, W, args, kw, ps = req
        return 'deccall %s %s %s %s %s' % (core.names_line(P), core.names_line(W), vals_line((SELF_TOK,) + tuple(args)),
                                        kw_line(kw), core.params_line((core.P('self', 'pk'),) + tuple(ps)))
    if op in ('deccallend2m', 'deccallstart2m'):   # start= / end= form stacked with an explicit selection, bound method
        _, order, st, other, args, kw, ps = req
        sel = tuple(other) + (('self',) if op == 'deccallstart2m' else ())
        return '%s %d %s %s %s %s' % (op[:-1], core.NAMES.id(st), core.names_line(sel), vals_line((SELF_TOK,) + tuple(args)),
                                      kw_line(kw), core.params_line((core.P('self', 'pk'),) + tuple(ps)))
    if op in ('deccallendm', 'deccallstartm'):     # bound method of the start= / end= forms
        _, st, extra, args, kw, ps = req
        return '%s %d %s %s %s %s' % (op[:-1], core.NAMES.id(st), core.names_line(extra), vals_line((SELF_TOK,) + tuple(args)),
                                      kw_line(kw), core.params_line((core.P('self', 'pk'),) + tuple(ps)))
    if op in ('startnames', 'endnames'):
        _, st, extra, ps = req
        return '%s %d %s %s' % (op, core.NAMES.id(st), core.names_line(extra), core.params_line(ps))
    if op == 'autonames':
        _, ex, ps = req
        return 'autonames %s %s' % (core.names_line(ex), core.params_line(ps))
    if op == 'makeup':
        _, nextra, ps = req
        return 'makeup %s %s' % ('.'.join(str(900 + i) for i in range(nextra)) or '_', core.params_line(ps))
    if op == 'chain':
        from . import real_r7
        return real_r7.chain_line(req)
    if op == 'cacheid':
        return 'cacheid identity ' + (','.join(req[2]) or '_')
    if op in ('readsig', 'stext', 'pieces', 'resplit', 'readsigtext'):
        from . import real_r8
        return real_r8.line(req)
    if op == 'examine':
        from . import real_r9
        return real_r9.line(req)
    if op == 'stream-timeout':
        return 'stream-timeout %s' % (req[1],)
    raise core.HarnessError('unknown op %r' % (op,))


SELF_TOK = 777


def vals_line(vs):
    return '.'.join(str(v) for v in vs) if vs else '_'


def kw_line(kw):
    return '.'.join('%d=%d' % (core.NAMES.id(k), v) for k, v in kw) if kw else '_'


def parse_model(req, ml):
    """model answer line -> canonical answer comparable with real(req)"""
    op = req[0]
    toks = ml.split()
    if not toks or toks[0] == 'bad-op':
        raise core.HarnessError('driver answered %r to %r' % (ml, line(req)))
    if op in ('visit', 'pvisit', 'ptruth'):
        if toks[0] == 'err':
            return ('err', toks[1])
        return ('ok', int(toks[1]), toks[2] if len(toks) > 2 else '_')
    if op == 'render':
        return ('ok', ' '.join(toks[1:]))
    if op == 'wlist':
        return ('ok', tuple(int(x) for x in toks[1].split('.')) if toks[1] != '_' else ())
    if op in ('pyeq', 'pyne', 'hasheq'):
        if toks[0] == 'ok':
            return ('ok', toks[1] == 'true')
        if toks[0] == 'unhashable':
            return ('unhashable',)
        return ('err', toks[1])
    if op == 'sched':
        o = lambda x: None if x == '-' else int(x)  # noqa
        saw = tuple(None if x == '-' else x == 'true' for x in toks[6].split(','))
        return ('ok', o(toks[1]), toks[5] == 'true', saw)
    if op == 'cleanup':
        o = lambda x: None if x == '-' else int(x)  # noqa
        return ('ok', o(toks[1]), o(toks[2]), o(toks[3]), o(toks[4]), toks[5] == 'true', int(toks[6]))
    if op == 'cache':
        return ('ok', tuple(int(x) for x in toks[1].split('.')) if toks[1] != '_' else ())
    if op in ('bindcall', 'bindcallsig', 'deccall', 'deccallm', 'deccallendm', 'deccallstartm', 'deccallst',
              'deccallend2m', 'deccallstart2m'):
        if toks[0] == 'typeerror':
            return ('typeerror',)
        if toks[0] == 'err':
            return ('err', toks[1])
        named = _pairs(toks[1])
        va = None if toks[2] == '-' else tuple(int(x) for x in toks[2].split('.')) if toks[2] != '_' else ()
        vk = None if toks[3] == '-' else _pairs(toks[3])
        if op in ('deccallm', 'deccallendm', 'deccallstartm', 'deccallend2m', 'deccallstart2m'):
            named = tuple((k, v) for k, v in named if k != core.NAMES.id('self'))
        return ('bound', named, va, vk)
    if op == 'prepare':
        if toks[0] == 'err':
            return ('err', toks[1])
        ps = []
        if toks[1] != '_':
            for q in toks[1].split(','):
                n, k, df, an, ua = q.split(':')
                ps.append((int(n), k, None if df == '-' else int(df), None if an == '-' else int(an), ua))
        return ('ok', tuple(ps))
    if op in ('startnames', 'endnames', 'autonames'):
        if toks[0] == 'err':
            return ('err', toks[1])
        return ('ok', tuple(sorted(int(x) for x in toks[1].split('.'))) if len(toks) > 1 and toks[1] != '_' else ())
    if op == 'makeup':
        return ('ok', int(toks[1]), toks[2] if len(toks) > 2 else '')
    if op == 'chain':
        from . import real_r7
        return real_r7.parse_chain(ml)
    if op == 'cacheid':
        return ('ok', toks[0])
    if op in ('readsig', 'stext', 'pieces', 'resplit', 'readsigtext'):
        from . import real_r8
        return real_r8.parse_model(req, ml)
    if op == 'examine':
        from . import real_r9
        return real_r9.parse_model(req, ml)
    return core.parse_model_answer(ml)


def _pairs(s):
    if s == '_':
        return ()
    return tuple(sorted((int(a), int(b)) for a, b in (e.split('=') for e in s.split('.'))))


class PartialObj:
    """stand-in for a functools.partial object as a provenance source"""
    _reg = {}

    def __new__(cls, n):
        if n in cls._reg:
            return cls._reg[n]
        o = super().__new__(cls)
        o.n = n
        cls._reg[n] = o
        core.register_callable(o, n)
        return o

    def __repr__(self):
        return 'Partial%d' % self.n


def _src_snap(sig):
    s = getattr(sig, 'sources', None)
    if not isinstance(s, dict):
        return None
    return {k: (dict(v) if isinstance(v, dict) else list(v)) for k, v in s.items()}


def real(req, plain=False):
    """the real operation; for the algebra, additionally: the provenance of the *input* signatures (signatures that were
    returned earlier) must be what it was before the call -- otherwise the answer carries the flag input-mutated,
    which the model never produces"""
    op = req[0]
    if op in ('merge', 'embed', 'mask', 'maskp', 'forwards'):
        made = []

        def mk(d, _mk=partial(core.mk_sig, plain=plain)):
            sg = _mk(d)
            made.append((sg, _src_snap(sg)))
            return sg
        a = _real(req, plain, mk, disturb=True)
        if any(_src_snap(sg) != snap for sg, snap in made):
            if a[0] == 'ok':
                a = a[:6] + (tuple(a[6]) + ('input-mutated',),)
            else:
                a = ('err', a[1] + '+input-mutated')
        return a
    return _real(req, plain, partial(core.mk_sig, plain=plain))


def _disturb(req, sigs):
    """Operations of the public algebra do not modify the signatures they are given (C16), so running other operations on the
    very same signature OBJECTS first must not change the answer: for a third of the requests (chosen by a hash of the
    request, hence reproducibly) each input is first masked by one positional, masked by its first keyword-passable name,
    merged with itself or embedded into itself; whatever those calls return or raise (ValueError) is discarded."""
    import zlib, warnings
    h = zlib.crc32(repr(req).encode())
    if h % 3:
        return
    with warnings.catch_warnings():
        warnings.simplefilter('ignore')
        for j, sg in enumerate(sigs):
            k = (h // 3 + j) % 4
            try:
                if k == 0:
                    signatures.mask(sg, 1)
                elif k == 1:
                    nm = next((p.name for p in sg.parameters.values() if p.kind in (p.POSITIONAL_OR_KEYWORD, p.KEYWORD_ONLY)), None)
                    if nm is not None:
                        signatures.mask(sg, 0, nm)
                elif k == 2:
                    signatures.merge(sg, sg)
                else:
                    signatures.forwards(sg, sg)
            except ValueError:
                pass


def _real(req, plain, mk, disturb=False):
    op = req[0]
    dist = (lambda sigs: _disturb(req, sigs)) if disturb else (lambda sigs: None)
    if op == 'merge':
        sigs = [mk(d) for d in req[1]]
        dist(sigs)
        return core.run_real(signatures.merge, *sigs)
    if op == 'embed':
        sigs = [mk(d) for d in req[3]]
        dist(sigs)
        return core.run_real(signatures.embed, *sigs, use_varargs=bool(req[1]), use_varkwargs=bool(req[2]))
    if op == 'mask':
        _, n, nms, fl, d = req
        sg = mk(d)
        dist([sg])
        return core.run_real(signatures.mask, sg, n, *nms, hide_args=fl[0], hide_kwargs=fl[1],
                             hide_varargs=fl[2], hide_varkwargs=fl[3])
    if op == 'maskp':
        _, n, kw, pobj, d = req
        kwd = {k: core.dflt_obj(v) for k, v in kw}
        sg = mk(d)
        dist([sg])
        return core.run_real(S._mask, sg, n, False, False, False, False, kwd, PartialObj(pobj))
    if op == 'forwards':
        _, n, nms, fl, o, i = req
        so, si = mk(o), mk(i)
        dist([so, si])
        return core.run_real(signatures.forwards, so, si, n, *nms, hide_args=fl[0], hide_kwargs=fl[1],
                             use_varargs=fl[2], use_varkwargs=fl[3], partial=fl[4])
    if op == 'apply':
        sig = mk(req[1])
        return core.run_real(lambda: signatures.apply_params(sig, *signatures.sort_params(sig, sources=True)))
    if op == 'accepts':
        _, n, K, ps = req
        return core.real_accepts(ps, n, K)
    from . import real_mod, real_rt, real_disc
    if op.startswith('rt:'):
        from . import real_decl
        from . import real_r7, real_r8, real_r9
        return (real_rt.RT.get(op[3:]) or real_decl.RT.get(op[3:]) or real_r7.RT.get(op[3:]) or real_r8.RT.get(op[3:]) or real_r9.RT.get(op[3:]) or real_disc.RT[op[3:]])(req)
    if op in real_disc.OPS:
        return real_disc.OPS[op](req)
    if op in real_mod.OPS:
        return real_mod.OPS[op](req)
    if op in real_rt.OPS:
        return real_rt.OPS[op](req)
    from . import real_r7
    if op in real_r7.OPS:
        return real_r7.OPS[op](req)
    from . import real_r8
    if op in real_r8.OPS:
        return real_r8.OPS[op](req)
    from . import real_r9
    if op in real_r9.OPS:
        return real_r9.OPS[op](req)
    raise core.HarnessError('unknown op %r' % (op,))


# ----------------------------------------------------------------------------- projections
def proj_full(a):
    return a


def proj_shape(a):
    """what acceptance depends on: names, kinds, required-ness; ok/err only"""
    if isinstance(a, bool):
        return a
    if a[0] == 'err':
        return ('err',)
    return ('ok', tuple((p[0], p[1], p[2] is None) for p in a[1]))


def proj_shape_errclass(a):
    if isinstance(a, bool):
        return a
    if a[0] == 'err':
        return a
    return ('ok', tuple((p[0], p[1], p[2] is None) for p in a[1]))


def proj_params(a):
    """parameters with defaults and raw annotations, and the error class"""
    if isinstance(a, bool) or a[0] == 'err':
        return a
    return ('ok', tuple(p[:4] for p in a[1]), a[4])


def proj_prov(a):
    """provenance: parameter names, sources, depths"""
    if isinstance(a, bool):
        return a
    if a[0] == 'err':
        return ('err',)
    return ('ok', tuple(p[0] for p in a[1]), a[2], a[3], tuple(f for f in a[6] if f in ('no-sources', 'no-depths', 'input-mutated')))


def proj_uann(a):
    if isinstance(a, bool):
        return a
    if a[0] == 'err':
        return ('err',)
    return ('ok', tuple((p[0], p[3], p[4]) for p in a[1]), a[4], a[5])


def proj_err(a):
    """error discipline: error class, and well-formedness flags of a result"""
    if isinstance(a, bool):
        return a
    if a[0] == 'err':
        return a
    return ('ok', tuple((p[0], p[1], p[2] is None) for p in a[1]), a[6])


# ----------------------------------------------------------------------------- worker
class ChunkResult:
    def __init__(self):
        self.n = 0
        self.mismatches = []     # (req, real, model)
        self.oracle_failures = []   # (req, real, text)
        self.counters = collections.Counter()
        self.distinct = set()
        self.samples = []


def process_chunk(task):
    """task = (stream_name, chunk_args, projection_name, oracle_name, plain)"""
    from . import streams, oracles
    stream, chunk_args, projname, oraclename, opts = task
    proj = globals()[projname]
    oracle = getattr(oracles, oraclename) if oraclename else None
    reqs = list(streams.STREAMS[stream](*chunk_args, **opts.get('kw', {})))
    res = ChunkResult()
    # requests whose op starts with 'rt:' exercise runtime behaviour that has no model counterpart
    # (validated, not proved): they go to the oracle only
    plain = bool(opts.get('plain'))
    # 'sched': the model replays the order of shared accesses *logged by the real run*, so the real side runs first
    pre = {}
    crashed = {}     # index -> text: the real code (or the adapter driving it) raised something no adapter expects
    for i, r in enumerate(reqs):
        if r[0] == 'sched':
            from . import real_rt
            try:
                d = real_rt.rt_sched(r)
            except core.HarnessError:
                raise
            except Exception as e:  # noqa
                crashed[i] = 'adapter-exception: running %s on the real code raised %s: %s' % (
                    repr(r)[:200], type(e).__name__, str(e)[:200])
                continue
            pre[i] = (('ok', d['final'], d['done'], tuple(d['saw'])),
                      'threads %d %s - - - %s' % (r[1], '-' if r[2] is None else r[2],
                                                  '.'.join(str(x) for x in d['model_schedule']) or '_'), d)
    lines = [pre[i][1] if i in pre else (line(r) if not (r[0].startswith('rt:') or i in crashed) else 'validate _')
             for i, r in enumerate(reqs)]
    model_raw = core.run_driver(lines)
    for idx, (r, ml) in enumerate(zip(reqs, model_raw)):
        if idx not in pre and idx not in crashed:
            try:
                ra = real(r, plain=plain)
            except core.HarnessError:
                raise
            except Exception as e:  # noqa
                crashed[idx] = 'adapter-exception: running %s on the real code raised %s: %s' % (
                    line(r)[:300], type(e).__name__, str(e)[:200])
        if idx in crashed:
            # An exception class no adapter maps is by construction a disagreement with the model (whose error
            # enumeration cannot produce it) and a concrete failing input; it is reported, not a harness crash.
            res.n += 1
            res.counters[r[0]] += 1
            res.counters['real:unexpected-exception'] += 1
            res.counters['mismatch'] += 1
            if len(res.mismatches) < 20:
                res.mismatches.append((r, ('crash', crashed[idx]), ml[:200]))
            res.counters['oracle-fail'] += 1
            res.counters['fail:adapter-exception'] += 1
            if res.counters['fail:adapter-exception'] <= 3:
                res.oracle_failures.append((r, ('crash', crashed[idx]), crashed[idx]))
            continue
        if idx in pre:
            ra = pre[idx][0]
            r = r + (tuple(pre[idx][2]['events']),)
        if r[0].startswith('rt:'):
            ma = ra
            lines[res.n] = 'rt-only ' + repr(r)[:200]
            res.counters['runtime-only'] += 1
        else:
            ma = parse_model(r, ml)
        res.n += 1
        res.counters[r[0]] += 1
        if isinstance(ra, tuple):
            res.counters['real:' + (ra[0] if ra[0] != 'err' else ra[1])] += 1
        else:
            res.counters['real:' + str(ra)] += 1
        if r[0].startswith('rt:'):
            pr = pm = None          # runtime-only request: nothing to compare with the model
        else:
            pr, pm = proj(ra), proj(ma)
        nontriv = not (isinstance(ra, tuple) and ra[0] == 'ok' and isinstance(ra[1], tuple) and len(ra[1]) == 0)
        if nontriv:
            res.distinct.add(hash(lines[res.n - 1]))
        if pr != pm:
            if len(res.mismatches) < 20:
                res.mismatches.append((r, ra, ma))
            res.counters['mismatch'] += 1
        if oracle is not None:
            try:
                fails = oracle(r, ra, res.counters)
            except core.HarnessError:
                raise
            except Exception as e:  # noqa  — the oracle runs the real code too (calls, evaluation of annotations, ...)
                fails = ['oracle-exception: checking the property on %s raised %s: %s' % (
                    lines[res.n - 1][:300], type(e).__name__, str(e)[:200])]
            if r[0].startswith('rt:'):
                # the problems a runtime probe reports itself count for every property that runs it
                fails = list(fails) + [f for f in oracles.rt_problems(r, ra) if f not in fails]
            for f in fails:
                res.counters['oracle-fail'] += 1
                k = 'fail:' + f.split(':')[0]
                res.counters[k] += 1
                if res.counters[k] <= 3:        # keep a few per failure kind, so that no kind is crowded out
                    res.oracle_failures.append((r, ra, f))
        if len(res.samples) < 2 and nontriv:
            res.samples.append({'request': lines[res.n - 1], 'real': repr(ra)[:300], 'model': ml[:300]})
    return res


def run_stream(stream, chunks, projname, oraclename=None, opts=None, procs=None):
    """chunks: list of chunk_args tuples.  Returns aggregated ChunkResult."""
    tasks = [(stream, c, projname, oraclename, opts or {}) for c in chunks]
    agg = ChunkResult()
    procs = procs or min(16, os.cpu_count() or 4)
    from . import streams as _streams
    pre = getattr(_streams, 'PREFORK', {}).get(stream)
    if pre:
        pre()          # build shared, read-only data (the corpus) once, before the workers are forked
    if not tasks or procs == 1:
        results = map(process_chunk, tasks)
    else:
        ctx = multiprocessing.get_context('fork')
        pool = ctx.Pool(min(procs, len(tasks)))
        # a worker that never comes back (a retrieval blocked for good, e.g. on a lock another thread leaked) must not hang
        # the check: the stream is abandoned after a generous limit and reported as a failure of its own
        limit = float(os.environ.get('VERIF_STREAM_TIMEOUT', (opts or {}).get('timeout', 420)))
        try:
            results = pool.map_async(process_chunk, tasks, chunksize=1).get(timeout=limit)
            pool.close()
        except multiprocessing.TimeoutError:
            pool.terminate()
            hung = ChunkResult()
            msg = ('no-return: stream %s did not finish within %d s: some operation on the real code never returned '
                   '(blocked for good?); the workers were terminated' % (stream, limit))
            hung.counters['no-return'] += 1
            hung.oracle_failures.append((('stream-timeout', stream), ('hang',), msg))
            results = [hung]
        finally:
            pool.join()
    for r in results:
        agg.n += r.n
        agg.counters.update(r.counters)
        agg.distinct |= r.distinct
        if len(agg.mismatches) < 50:
            agg.mismatches.extend(r.mismatches)
        for of in r.oracle_failures:
            k = 'kept:' + of[2].split(':')[0]
            agg.counters[k] += 1
            if agg.counters[k] <= 5:
                agg.oracle_failures.append(of)
        if len(agg.samples) < 4:
            agg.samples.extend(r.samples)
    return agg
