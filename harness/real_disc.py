"""harness/real_disc.py — real-side adapters for automatic discovery and retrieval (C05, C06, C07)."""
import ast, inspect, warnings, functools, types
from . import core, corpus, treeser
import sigtools
from sigtools import _autoforwards, _util, specifiers, signatures

_AST = {}


def corpus_ast(idx):
    if idx in _AST:
        return _AST[idx]
    f = corpus.callables()[0][idx]
    try:
        with warnings.catch_warnings():
            warnings.simplefilter('ignore')
            t = _util.get_ast(f)
    except BaseException as e:  # noqa
        t = ('raised', type(e).__name__)
    _AST[idx] = t
    return t


def req_tree(req):
    if req[1] == 'corpus':
        return corpus_ast(req[2])
    if req[1] == 'src':
        return ast.parse(req[2]).body[0]
    raise core.HarnessError('unknown tree source %r' % (req[1],))


def visit_line(req):
    return treeser.tree_line(req_tree(req))


def real_visit(req):
    t = req_tree(req)
    try:
        v = _autoforwards.CallListerVisitor(t)
    except core.CanonError:
        raise
    except RecursionError:
        return ('err', 'RecursionError')
    except Exception as e:  # noqa
        return core.canon_exc(e)
    return treeser.canon_calls(v.calls)


OPS = {'visit': real_visit}
RT = {}


# ----------------------------------------------------------------------------- programs of the forwarding grammar
from . import progs  # noqa: E402


def own_desc(p):
    ps = [core.P(x, 'pk') for x in p['params']] + [core.P(p['va'], 'vp'), core.P(p['vk'], 'vk')]
    return core.D(ps, fn=1)


def marker_str(expr, p):
    """canonical marker string (as Model/Protocol.lean showRM) of a callee expression"""
    node = ast.parse(expr, mode='eval').body

    def go(n):
        if isinstance(n, ast.Name):
            return ('R' if n.id in p['params'] else 'M') + str(core.NAMES.id(n.id))
        if isinstance(n, ast.Attribute):
            return 'A(%s.%d)' % (go(n.value), core.NAMES.id(n.attr))
        return 'U'
    return go(node)


def prog_line(op, p):
    toks = progs.prog_tokens(p)
    if op in ('render', 'pvisit', 'ptruth', 'progok'):
        return '%s %s' % (op, ' '.join(toks))
    # pauto / pdeclared: resolution table
    tbl = []
    for s in _all_fwds(p['body']):
        m = marker_str(s[1], p)
        k = s[7]
        if p['route'] == 'param':
            continue
        if m not in [t[0] for t in tbl]:
            # self.m_k is a bound method: its signature names the bound method object (callable 1000 + that of the function)
            tbl.append((m, core.sig_line(core.D(p['callees'][k], fn=(1010 if p['route'] == 'self' else 10) + k))))
    if p['route'] == 'param':
        tbl.append(('R%d' % core.NAMES.id('cb'), core.sig_line(core.D(p['callees'][0], fn=10))))
    pm = 'A(M%d.%d)' % (core.NAMES.id('functools'), core.NAMES.id('partial'))
    if op == 'pautoh':
        op = 'pautoh %s %s' % (core.names_line(p['hintP']), core.names_line(p['hintW']))
    if op == 'pauto' and p['route'] == 'self':
        op = 'pautom'             # retrieved through an instance: autoforwards_method
    elif op == 'pauto' and p['route'] == 'param':
        op = 'pautop 1 _ 2'       # functools.partial(wrapper, g0): autoforwards_partial, one bound positional, partial object = callable 2
    return '%s %s %d %s %s %s' % (op, pm, len(tbl), ' '.join('%s %s' % t for t in tbl), core.sig_line(own_desc(p)), ' '.join(toks))


def _all_fwds(stmts):
    for s in stmts:
        if s[0] == 'fwd':
            yield s
        elif s[0] in ('block', 'nested'):
            for t in _all_fwds(s[1]):
                yield t


def wrapper_ast(p):
    src = '\n'.join(progs.wrapper_source(p)) + '\n'
    return ast.parse(src).body[0]


def real_render(req):
    return ('ok', ' '.join(treeser.ser(wrapper_ast(req[1]), [], root=True)))


def real_pvisit(req):
    t = wrapper_ast(req[1])
    try:
        v = _autoforwards.CallListerVisitor(t)
    except Exception as e:  # noqa
        return core.canon_exc(e)
    return treeser.canon_calls([c for c in v.calls if c.use_varargs or c.use_varkwargs])


def truth_records(p):
    """canonical records from the PYTHON ground truth (independent of Lean and of the visitor)"""
    out = []
    for (s, ua, uk, ha, hk) in progs.py_truth(p):
        _, callee, npos, kws = s[:4]
        va = ('R%d' % core.NAMES.id(p['va'])) if ua else ('U' if ha else '-')
        vk = ('R%d' % core.NAMES.id(p['vk'])) if uk else ('U' if hk else '-')
        out.append('%s|%s|%s|%s|%s|%d%d%d%d' % (
            marker_str(callee, p), ','.join(['U'] * npos) or '_',
            ','.join('%d=U' % core.NAMES.id(k) for k in kws) or '_', va, vk, ua, uk, ha, hk))
    return ('ok', len(out), ';'.join(out) or '_')


def real_ptruth(req):
    return truth_records(req[1])


def load_prog(p, execute=True, decorators=()):
    src = progs.module_source(p, execute=execute, decorators=decorators)
    mod, fname = progs.load_module(src)
    w = getattr(mod, 'wrapper', None)
    if p['route'] == 'closure':
        w = mod.target
    if p['route'] == 'self':
        w = mod.C.__dict__['wrapper']
    core.register_callable(w, 1)
    for k in range(len(p['callees'])):
        g = mod._callees[k] if p['route'] == 'closure' else getattr(mod, 'g%d' % k)
        core.register_callable(g, 10 + k)
        if p['route'] == 'self':
            core.register_callable(mod.C.__dict__['m%d' % k], 10 + k)
    if p['route'] == 'param':
        core.register_callable(mod.target, 2)
    return mod, fname


def real_pauto(req):
    p = req[1]
    mod, fname = load_prog(p)
    try:
        a = core.run_real(sigtools.signature, mod.target)
        if p['route'] == 'self' and a[0] == 'ok':
            # plain retrieval names the bound method object (1001), discovery the function (1): both are "the wrapper"
            w = lambda f: 1 if f == 1001 else f      # noqa
            a = a[:2] + (tuple((k, tuple(w(f) for f in v)) for k, v in a[2]), tuple(sorted((w(f), d) for f, d in a[3]))) + a[4:]
        return a
    finally:
        progs.unload(fname)


def real_pautoh(req):
    """the wrapper decorated with modifiers.posoargs(*P) / kwoargs(*W) (one translator with both selections)"""
    p = req[1]
    P_, W_ = tuple(p['hintP']), tuple(p['hintW'])
    ps_ = list(p['params'])
    if P_ == tuple(ps_[:len(P_)]) and not set(P_) & set(W_) and all(w in ps_ for w in W_) and len(set(W_)) == len(W_):
        # each selection is admissible on its own: stack the public decorators, one per name (they merge into one translator)
        decs = ['@modifiers.kwoargs(%r)' % w for w in W_] + (['@modifiers.posoargs(%s)' % ', '.join(repr(x) for x in P_)] if P_ else [])
    else:
        # one translator carrying both selections
        decs = ['@functools.partial(modifiers._PokTranslator, posoargs=%r, kwoargs=%r)' % (P_, W_)]
    try:
        mod, fname = load_prog(p, decorators=tuple(decs))
    except ValueError as e:
        return core.canon_exc(e)          # inadmissible selection: ValueError at decoration time
    try:
        tr = mod.target
        core.register_callable(tr, 1)      # the translator stands for the function in the provenance
        f = getattr(tr, 'func', None)
        if f is not None:
            core.register_callable(f, 1)
        return core.run_real(sigtools.signature, tr)
    finally:
        progs.unload(fname)


OPS.update({'render': real_render, 'pvisit': real_pvisit, 'ptruth': real_ptruth, 'pauto': real_pauto, 'pautoh': real_pautoh})


# ----------------------------------------------------------------------------- runtime-only: execution, declaration, variants
import itertools, random, traceback  # noqa: E402
from . import oracles as _orc  # noqa: E402


def _fwd_lines(p, src_lines):
    """line number (1-based, within the module source) -> fwd statement, for top-level/nested fwd statements"""
    text = '\n'.join(src_lines) + '\n'
    tree = ast.parse(text)
    fw = [n for n in ast.walk(tree) if isinstance(n, ast.FunctionDef) and n.name == 'wrapper'][0]
    calls = []

    class V(ast.NodeVisitor):
        def visit_Call(self, node):
            calls.append(node)
            self.generic_visit(node)
    V().visit(fw)
    calls.sort(key=lambda c: (c.lineno, c.col_offset))
    stmts = list(_stmts_in_order(p['body']))
    out = {}
    ci = 0
    for s in stmts:
        if s[0] in ('fwd', 'mutate', 'hand', 'decoy'):
            if ci < len(calls):
                out[calls[ci].lineno] = s
                ci += 1
    return out


def _stmts_in_order(stmts):
    for s in stmts:
        if s[0] in ('block', 'nested'):
            for t in _stmts_in_order(s[1]):
                yield t
        else:
            yield s


def rt_progexec(req):
    """C05: every non-colliding call accepted by sigtools.signature(wrapper) runs without an argument-binding
    TypeError raised by the wrapper or by a callee it forwards to — or the reported signature is the plain one"""
    _, p = req
    src = progs.module_source(p, execute=True)
    mod, fname = load_prog(p)
    problems = []
    try:
        with warnings.catch_warnings():
            warnings.simplefilter('ignore')
            R = core.run_real(sigtools.signature, mod.target)
            plain = core.run_real(signatures.signature, mod.target)
        if R[0] != 'ok':
            return ('ok', ('retrieval-raised: sigtools.signature raised %s for\n%s' % (R[1], src),), 'raised')
        if R[1] == plain[1]:
            return ('ok', (), 'plain')
        Rp = _orc.P_of(R[1])
        truth = {id(s): (ua, uk, ha, hk) for (s, ua, uk, ha, hk) in progs.py_truth(p)}
        lines = _fwd_lines(p, src.split('\n'))
        ins = [[(x, 'pk', None) for x in p['params'] if x not in ('self', 'cb')] + [(p['va'], 'vp', None), (p['vk'], 'vk', None)]]
        ins += [[(q[0], q[1], q[2]) for q in sg] for sg in p['callees']]
        ran = 0
        for n, K in _orc.shapes_for(ins + [Rp], foreign=('zz',), maxk=3):
            if not _orc.non_colliding(Rp, ins, K) or not _orc.acc(Rp, n, K):
                continue
            ran += 1
            mod.REC.clear()
            try:
                mod.target(*([0] * n), **{k: 0 for k in K})
            except TypeError as e:
                # attribute the error to a statement of the wrapper
                tb = e.__traceback__
                stmt = None
                inwrapper = False
                while tb is not None:
                    if tb.tb_frame.f_code.co_name == 'wrapper' and tb.tb_frame.f_code.co_filename == fname:
                        inwrapper = True
                        stmt = lines.get(tb.tb_lineno)
                    tb = tb.tb_next
                if inwrapper and stmt is not None and stmt[0] == 'fwd':
                    fl = truth.get(id(stmt))
                    if fl is None or fl[2] or fl[3]:
                        continue       # the call forwards nothing pristine, or part of it is hidden: outside the claim
                elif inwrapper and stmt is not None:
                    continue
                if 'multiple values for argument' in str(e) or 'multiple values for keyword argument' in str(e):
                    # a name that one forwarding call binds positionally (written positionals shift the callee's
                    # parameters) is advertised as keyword-passable through another: the merge of role-inconsistent
                    # forwarded signatures is only sound for pure calls (C01)
                    problems.append('role-inconsistent-forwarding: sigtools.signature reports %s which accepts (%d,%s), but running it raises TypeError: %s\n%s' % (
                        core.fmt_params(Rp), n, K, e, src))
                    continue
                problems.append('unsound: sigtools.signature reports %s which accepts (%d,%s), but running it raises TypeError: %s\n%s' % (
                    core.fmt_params(Rp), n, K, e, src))
                break
            except Exception:  # noqa  — NameError after `del kwargs` etc. is not an argument-binding error
                pass
        return ('ok', tuple(problems[:1] + [q for q in problems[1:] if not q.startswith('role-inc')][:1]), 'executed:%d' % ran)
    finally:
        progs.unload(fname)


def rt_declared(req):
    """C06: discovery from source == the explicit declaration (public algebra over the generator's ground truth)"""
    _, p = req
    src = progs.module_source(p, execute=True)
    mod, fname = load_prog(p)
    problems = []
    try:
        with warnings.catch_warnings():
            warnings.simplefilter('ignore')
            target = mod.target
            got = core.run_real(sigtools.signature, target)
            wf = mod.C.__dict__['wrapper'] if p['route'] == 'self' else (mod.target.func if p['route'] == 'param' else mod.target)
            inst = target.__self__ if p['route'] == 'self' else None
            sigs = []
            plain = False
            try:
                for (s, ua, uk, ha, hk) in progs.py_truth(p):
                    k = s[7]
                    if p['route'] == 'self':
                        callee = getattr(inst, 'm%d' % k)
                    elif p['route'] == 'param':
                        callee = getattr(mod, 'g0')
                    elif p['route'] == 'closure':
                        callee = mod._callees[k]
                    else:
                        callee = getattr(mod, 'g%d' % k)
                    csig = specifiers.signature(callee)
                    if any(q.kind in (q.VAR_POSITIONAL, q.VAR_KEYWORD) for q in csig.parameters.values()):
                        signatures.signature(callee).bind_partial(*([1] * s[2]), **{x: 1 for x in s[3]})
                    outer = signatures.signature(wf)
                    sigs.append(signatures.forwards(outer, csig, s[2], *s[3], use_varargs=ua, use_varkwargs=uk,
                                                    hide_args=ha, hide_kwargs=hk))
                if not sigs:
                    plain = True
                else:
                    want_sig = signatures.merge(*sigs)
            except (ValueError, TypeError):
                plain = True
            if plain:
                want = core.run_real(signatures.signature, target)
            else:
                if p['route'] == 'self':
                    want_sig = signatures.mask(want_sig, 1)
                elif p['route'] == 'param':
                    want_sig = None
                want = core.canon_sig(want_sig) if want_sig is not None else None
        if want is not None and got != want:
            problems.append('discovery-differs-from-declaration: discovered %s, declared %s for\n%s' % (got[:4], want[:4], src))
        return ('ok', tuple(problems), 'plain' if plain else 'declared')
    finally:
        progs.unload(fname)


def _variant_lines(lines, rng):
    """semantically irrelevant variation of the wrapper source: statement context of the forwarding calls,
    unrelated statements, local names, decoy calls, a decorator that only wraps"""
    out = []
    for l in lines:
        st = l.strip()
        ind = l[:len(l) - len(l.lstrip())]
        is_call = ('(' in st and not st.startswith(('def ', 'if ', 'del ', 'nonlocal ', '@')))
        if is_call and ('*args' in st or '**kwargs' in st):
            kind = rng.choice(['same', 'try', 'with', 'if', 'assign', 'comp', 'tuple', 'cond', 'assert'])
            expr = st.split(' = ', 1)[1] if (' = ' in st and not st.split(' = ')[0].count('(')) else st
            if kind == 'try':
                out += [ind + 'try:', ind + '    ' + st, ind + 'finally:', ind + '    pass']
            elif kind == 'with':
                out += [ind + 'with _ctx():', ind + '    ' + st]
            elif kind == 'if':
                out += [ind + 'if _true():', ind + '    ' + st, ind + 'else:', ind + '    pass']
            elif kind == 'assign':
                out += [ind + 'loc_%d = %s' % (rng.randint(0, 9), expr)]
            elif kind == 'comp':
                out += [ind + '[%s for _i in (1,)]' % expr]
            elif kind == 'tuple':
                out += [ind + '(1, %s, 2)' % expr]
            elif kind == 'cond':
                out += [ind + '%s if _true() else None' % expr]
            elif kind == 'assert':
                out += [ind + 'assert (%s) is None' % expr]
            else:
                out.append(l)
        else:
            out.append(l)
        if rng.random() < 0.3 and st and not st.endswith(':') and not st.startswith(('@', 'nonlocal')):
            out.append(ind + rng.choice(['unrelated_%d = 1', 'h1(%d)', 'h1(unrel=%d)', 'pass  # %d']) % rng.randint(0, 9))
    return out


def rt_variants(req):
    """C06: the outcome is unchanged by semantically irrelevant variation of the source"""
    _, p, seed = req
    rng = random.Random(seed)
    base_src = progs.module_source(p, execute=True)
    mod, fname = load_prog(p)
    problems = []
    try:
        with warnings.catch_warnings():
            warnings.simplefilter('ignore')
            base = core.run_real(sigtools.signature, mod.target)
    finally:
        progs.unload(fname)
    for v in range(3):
        lines = base_src.split('\n')
        # vary only the wrapper's lines
        start = next(i for i, l in enumerate(lines) if l.lstrip().startswith('def wrapper('))
        ind0 = len(lines[start]) - len(lines[start].lstrip())
        end = start + 1
        while end < len(lines) and (not lines[end].strip() or len(lines[end]) - len(lines[end].lstrip()) > ind0):
            end += 1
        body = _variant_lines(lines[start + 1:end], rng)
        deco = [' ' * ind0 + '@_ident'] if rng.random() < 0.5 else []
        helpers = ['import contextlib', 'def _true():', '    return True', '@contextlib.contextmanager', 'def _ctx():',
                   '    yield', 'def _ident(f):', '    return f', '']
        src = '\n'.join(helpers + lines[:start] + deco + [lines[start]] + body + lines[end:])
        try:
            vmod, vfname = progs.load_module(src)
        except SyntaxError as e:
            problems.append('harness-variant-syntax: %s\n%s' % (e, src))
            continue
        try:
            w = vmod.C.__dict__['wrapper'] if p['route'] == 'self' else (vmod.target.func if p['route'] == 'param' else vmod.target)
            core.register_callable(w, 1)
            for k in range(len(p['callees'])):
                core.register_callable(vmod._callees[k] if p['route'] == 'closure' else getattr(vmod, 'g%d' % k), 10 + k)
                if p['route'] == 'self':
                    core.register_callable(vmod.C.__dict__['m%d' % k], 10 + k)
            if p['route'] == 'param':
                core.register_callable(vmod.target, 2)
            with warnings.catch_warnings():
                warnings.simplefilter('ignore')
                got = core.run_real(sigtools.signature, vmod.target)
            if got != base:
                problems.append('variant-changes-outcome: base %s, variant %s\n--- base\n%s\n--- variant\n%s' % (
                    base[:3], got[:3], base_src, src))
        finally:
            progs.unload(vfname)
    return ('ok', tuple(problems[:2]))


RT.update({'progexec': rt_progexec, 'declared': rt_declared, 'variants': rt_variants})


_D19_SRC = '''
def g(x, y=1):
    return x, y
def h(d):
    d.clear()
def wrapper_mutate(*args, **kwargs):
    def sub():
        kwargs.pop('x')
    sub()
    return g(*args, **kwargs)
def wrapper_handover(*args, **kwargs):
    def sub():
        h(kwargs)
    sub()
    return g(*args, **kwargs)
'''


def rt_nested_taint(req):
    """deterministic probe (finding D19): **kwargs mutated / handed over inside a nested function that runs
    before the forwarding call"""
    mod, fname = progs.load_module(_D19_SRC)
    problems = []
    try:
        for name in ('wrapper_mutate', 'wrapper_handover'):
            w = getattr(mod, name)
            with warnings.catch_warnings():
                warnings.simplefilter('ignore')
                sig = sigtools.signature(w)
                plain = signatures.signature(w)
            if str(sig) == str(plain):
                continue
            try:
                sig.bind(x=1)
            except TypeError:
                continue
            try:
                w(x=1)
            except TypeError as e:
                problems.append('nested-scope-taint-missed: %s is reported as %s, which accepts x=1, but running it raises TypeError: %s '
                                '(kwargs is mutated / handed over inside a nested function called before the forwarding call)' % (name, sig, e))
    finally:
        progs.unload(fname)
    return ('ok', tuple(problems[:1]))


RT['nested_taint'] = rt_nested_taint


_RELOAD_A = '''def old_backend(x, y=None): return (x, y)
def new_backend(x, *, level=0, verbose=False): return (x, level, verbose)
def run(*args, **kwargs):
    return old_backend(*args, **kwargs)
'''
_RELOAD_B = _RELOAD_A.replace('return old_backend(*args', 'return new_backend(*args')


def rt_source_changed(req):
    """a module is edited and executed again under the SAME file name: the function of the same name on the same line now
    forwards elsewhere; retrieval must read the new source (as inspect.getsource does), not remember the old one"""
    import linecache, types
    fname = '<verif-reload-%d>' % id(req)
    problems = []
    try:
        seen = []
        for text in (_RELOAD_A, _RELOAD_B, _RELOAD_A):
            linecache.cache[fname] = (len(text), None, text.splitlines(True), fname)
            mod = types.ModuleType('verif_reload')
            mod.__file__ = fname
            exec(compile(text, fname, 'exec'), mod.__dict__)
            with warnings.catch_warnings():
                warnings.simplefilter('ignore')
                sg = sigtools.signature(mod.run)
                want = sigtools.signature(mod.old_backend if 'old_backend(*args' in text else mod.new_backend)
            seen.append(str(sg))
            if str(sg) != str(want):
                problems.append('stale-source: after the module text changed (same file name, line and function name), sigtools.signature(run) '
                                '= %s; the function now forwards to a callee with signature %s (sequence so far: %s)' % (sg, want, seen))
                break
            for a, k in (((1,), {}), ((1, 2), {}), ((1,), {'y': 2}), ((1,), {'level': 1}), ((), {})):
                try:
                    sg.bind(*a, **k)
                except TypeError:
                    continue
                try:
                    mod.run(*a, **k)
                except TypeError as e:
                    problems.append('stale-source: %s accepts %s %s but the call raises TypeError: %s' % (sg, a, k, e))
                    break
        # the file changes while the function object lives on: what is at its lines now is comments, blank lines, or another
        # statement altogether - retrieval still answers (with the plain signature), as inspect.signature does (finding D62)
        last = mod.run
        for label, text in (('comments', '# rewritten\n' * 40), ('blank lines', '\n' * 40), ('other statements', 'x = 1\n' * 40),
                            ('half a statement', '    return (\n' * 40), ('empty file', '')):
            linecache.cache[fname] = (len(text), None, text.splitlines(True), fname)
            try:
                with warnings.catch_warnings():
                    warnings.simplefilter('ignore')
                    got = str(sigtools.signature(last))
                    want = str(inspect.signature(last))
            except Exception as e:  # noqa
                problems.append('source-replaced-raises: the text of the file was replaced by %s after the function was defined; '
                                'sigtools.signature raises %s: %s (inspect.signature answers)' % (label, type(e).__name__, e))
                continue
            if got != want:
                problems.append('source-replaced: with %s at its lines, sigtools.signature(run) = %s, its own signature is %s' % (label, got, want))
    finally:
        linecache.cache.pop(fname, None)
    return ('ok', tuple(problems[:2]), 'probed')


RT['source_changed'] = rt_source_changed


# ----------------------------------------------------------------------------- C07: retrieval over the corpus
import signal  # noqa: E402


class _Timeout(BaseException):
    pass


def _alarm(*a):
    raise _Timeout()


def _outcome(fn, obj):
    try:
        with warnings.catch_warnings():
            warnings.simplefilter('ignore')
            r = fn(obj)
    except _Timeout:
        raise
    except BaseException as e:  # noqa
        return ('raised', type(e).__name__, None)
    return ('ok', type(r).__name__, r)


def _has_forger(obj):
    for a in ('_sigtools__forger', '__signature__', '__wrapped__', '_sigtools__autoforwards_hint'):
        try:
            object.__getattribute__(obj, a)
            return True
        except Exception:  # noqa
            pass
        try:
            if hasattr(obj, a):
                return True
        except Exception:  # noqa
            return True
    return False


def _params3(sig):
    return [(p.name, core.KIND_NAME[p.kind], None if p.default is p.empty else 1) for p in sig.parameters.values()]


def rt_retrieve(req):
    """C07 on one corpus callable: total (same outcome class as inspect.signature), upgraded result, narrowing"""
    _, kind, idx = req
    funcs, others = corpus.callables()
    obj = (funcs if kind == 'f' else others)[idx]
    problems = []
    old = signal.signal(signal.SIGALRM, _alarm)
    signal.alarm(20)
    try:
        insp = _outcome(inspect.signature, obj)
        outs = {'sigtools.signature': _outcome(sigtools.signature, obj),
                'signature(auto=False)': _outcome(lambda o: specifiers.signature(o, auto=False), obj),
                'signatures.signature': _outcome(signatures.signature, obj)}
        for name, o in outs.items():
            if insp[0] == 'ok':
                if o[0] != 'ok':
                    problems.append('retrieval-raises: %s(%s) raised %s although inspect.signature succeeds' % (name, corpus.qual(obj), o[1]))
                elif o[1] != 'UpgradedSignature':
                    problems.append('not-upgraded: %s(%s) returned a %s' % (name, corpus.qual(obj), o[1]))
            else:
                if o[0] == 'ok':
                    pass      # more capable than inspect: fine
                elif o[1] != insp[1] and not (o[1] == 'ValueError' and _has_forger(obj)):
                    problems.append('different-exception: %s(%s) raised %s, inspect.signature raised %s' % (name, corpus.qual(obj), o[1], insp[1]))
        status = 'inspect-raises' if insp[0] != 'ok' else 'ok'
        # narrowing for plain functions
        o = outs['sigtools.signature']
        if insp[0] == 'ok' and o[0] == 'ok' and kind == 'f' and not _has_forger(obj):
            try:
                own = _params3(insp[2])
                R = _params3(o[2])
            except Exception:  # noqa
                own = R = None
            if own is not None and R != own and len(own) <= 7 and len(R) <= 7:
                status = 'narrowed'
                for n, K in _orc.shapes_for([own, R], foreign=('zz_',), maxk=3):
                    if _orc.non_colliding(R, [own], K) and _orc.acc(R, n, K) and not _orc.acc(own, n, K):
                        problems.append('widens: sigtools.signature(%s) = %s accepts (%d,%s) but the def parameter list %s does not' % (
                            corpus.qual(obj), core.fmt_params(R), n, K, core.fmt_params(own)))
                        break
    except _Timeout:
        status = 'timeout'
    finally:
        signal.alarm(0)
        signal.signal(signal.SIGALRM, old)
    return ('ok', tuple(problems[:2]), status)


def rt_sphinx(req):
    """C07: the Sphinx autodoc hook returns two strings and never raises for a documentable object"""
    from sigtools import sphinxext
    idx = req[1]
    kind = req[2] if len(req) > 2 else 'f'
    f = (corpus.callables()[0] if kind == 'f' else corpus.callables()[1])[idx]
    try:
        name = '%s.%s' % (f.__module__, f.__qualname__)
    except AttributeError:
        return ('ok', (), 'undocumentable')       # not something Sphinx documents by name (an instance, a partial)
    problems = []
    # only objects Sphinx could document under that name: the dotted name must resolve
    try:
        import importlib
        o = importlib.import_module(f.__module__)
        for part in f.__qualname__.split('.'):
            o = getattr(o, part)
    except Exception:  # noqa
        return ('ok', (), 'undocumentable')
    old = signal.signal(signal.SIGALRM, _alarm)
    signal.alarm(20)
    try:
        try:
            with warnings.catch_warnings():
                warnings.simplefilter('ignore')
                r = sphinxext.process_signature(None, 'class' if isinstance(f, type) else 'function', name, f, None, '(PASSED)', 'RET')
        except _Timeout:
            return ('ok', (), 'timeout')
        except BaseException as e:  # noqa
            problems.append('sphinx-hook-raises: process_signature(%s) raised %s: %s' % (name, type(e).__name__, str(e)[:100]))
            return ('ok', tuple(problems), 'raised')
        if not (isinstance(r, tuple) and len(r) == 2 and all(isinstance(x, str) for x in r)):
            problems.append('sphinx-hook-result: process_signature(%s) returned %r' % (name, r))
        elif r[0] != '(PASSED)':
            # "returns the string forms of the evaluated signature": when retrieval adds nothing to what inspect reports,
            # the strings are those of inspect.signature(obj, eval_str=True) -- computed without sigtools
            try:
                with warnings.catch_warnings():
                    warnings.simplefilter('ignore')
                    tgt = o
                    plain = inspect.signature(tgt)
                    same = str(sigtools.signature(tgt)) == str(plain)
                    # only PEP 563 (`from __future__ import annotations`) annotations are evaluated; strings written by
                    # hand in an eagerly compiled module are values
                    import __future__
                    # ... and what matters is the module of the function the annotations were WRITTEN in: inspect follows
                    # __wrapped__ (a contextlib.contextmanager / functools.wraps wrapper lives in an eager module)
                    owner = inspect.unwrap(tgt, stop=lambda g_: hasattr(g_, '__signature__'))
                    fut = bool(getattr(owner, '__code__', None) and owner.__code__.co_flags & __future__.annotations.compiler_flag)
                    ev = inspect.signature(tgt, eval_str=True) if fut else plain
            except Exception:  # noqa  (not evaluable / no signature: nothing to compare with)
                same = False
            if same and isinstance(tgt, types.FunctionType) and '.' not in f.__qualname__:
                want_ret = '' if ev.return_annotation is ev.empty else repr(ev.return_annotation)
                want = (str(ev.replace(return_annotation=ev.empty)), want_ret)
                if r != want:
                    problems.append('sphinx-hook-strings: process_signature(%s) returned %r, the evaluated signature reads %r' % (name, r, want))
    finally:
        signal.alarm(0)
        signal.signal(signal.SIGALRM, old)
    return ('ok', tuple(problems), 'passed-through' if r[0] == '(PASSED)' else 'computed')


ADV_OBJECT_SOURCES = '''
import functools, sigtools
from sigtools import specifiers, modifiers, wrappers
def g(a, b=1, *, c=2): return a
lam = lambda *a, **k: g(*a, **k)
lam2 = (lambda x, *a, **k:
        g(*a, **k))
async def coro(*args, **kwargs): return await g(*args, **kwargs)
def gen(*args, **kwargs): yield g(*args, **kwargs)
async def agen(*args, **kwargs): yield g(*args, **kwargs)
def walrus(*args, **kwargs):
    if (n := len(args)): pass
    return g(*args, **kwargs)
def matcher(*args, **kwargs):
    match args:
        case [x, *rest]: pass
        case _: pass
    return g(*args, **kwargs)
def comp(*args, **kwargs): return [g(*args, **kwargs) for _ in range(2)]
def dcomp(*args, **kwargs): return {k: g(*args, **kwargs) for k in kwargs}
def starred(*args, **kwargs): return g(*args, *args, **kwargs, **kwargs)
def glob(*args, **kwargs):
    global g
    return g(*args, **kwargs)
def nonl(*args, **kwargs):
    def sub():
        nonlocal kwargs
        kwargs = {}
    return g(*args, **kwargs)
class Body:
    x = [g(1) for _ in range(1)]
    def m(self, *args, **kwargs): return g(*args, **kwargs)
    @staticmethod
    def s(*args, **kwargs):
        """doc
with a column-0 line"""
        return g(*args, **kwargs)
    @classmethod
    def c(cls, *args, **kwargs): return g(*args, **kwargs)
    def __call__(self, *args, **kwargs): return g(*args, **kwargs)
class BodySub(Body):
    pass
class BodySubSub(BodySub):
    def own(self, *args, **kwargs): return self.m(*args, **kwargs)
def two(*args, **kwargs):
    g(*args, **kwargs)
    Body.m(*args, **kwargs)
def incompatible(*args, **kwargs):
    g(*args, **kwargs)
    (lambda *, q: 0)(*args, **kwargs)
def part(*args, **kwargs): return functools.partial(*args, **kwargs)
def part2(*args, **kwargs): return functools.partial(g, *args, **kwargs)
def recursive(*args, **kwargs): return recursive(*args, **kwargs)
def mutual_a(*args, **kwargs): return mutual_b(*args, **kwargs)
def mutual_b(*args, **kwargs): return mutual_a(*args, **kwargs)
def recur_n(n, *args, **kwargs): return recur_n(n - 1, *args, **kwargs)
def recur_kw(*args, depth=0, **kwargs): return recur_kw(*args, depth=depth + 1, **kwargs)
def recur_lit(*args, **kwargs): return recur_lit(0, *args, key=None, **kwargs)
def cycle_a(x, *args, **kwargs): return cycle_b(x + 1, *args, **kwargs)
def cycle_b(y, *args, **kwargs): return cycle_a(y * 2, *args, **kwargs)
class Rec:
    def walk(self, path, *args, **kwargs): return self.walk(path[1:], *args, **kwargs)
def unresolved(*args, **kwargs): return missing_name(*args, **kwargs)
def notcallable(*args, **kwargs): return (3)(*args, **kwargs)
def builtin(*args, **kwargs): return print(*args, **kwargs)
def cfunc(*args, **kwargs): return dict(*args, **kwargs)
def deleted(*args, **kwargs):
    del kwargs
    return g(*args)
def onearg(f, *args, **kwargs): return f(*args, **kwargs)
def deco(f):
    @functools.wraps(f)
    def w(*args, **kwargs): return f(*args, **kwargs)
    return w
@deco
def wrapped(a, b): pass
@deco
@deco
def wrapped2(a, b): pass
def nothing(): return 0
try: import no_such_module_for_sure
except ImportError: fallback_lam = lambda *args, **kwargs: g(*args, **kwargs)
if g: ifline_lam = lambda *args, **kwargs: g(*args, **kwargs)
else: elseline_lam = None
for _ in (): pass
else: forelse_lam = lambda x, *args, **kwargs: g(*args, **kwargs)
NOT_ITERABLE = None
def star_of_global(**kw): return g(*NOT_ITERABLE, **kw)
def dstar_of_global(*a): return g(*a, **NOT_ITERABLE)
class RaisingProp:
    @property
    def prop(self): raise RuntimeError('boom')
    @property
    def prop2(self): raise KeyError('boom')
    def viaprop(self, *a, **k): return self.prop(*a, **k)
    def viaprop2(self, *a, **k): return self.prop2.attr(*a, **k)
class KwOnlyMethod:
    def m(**kwargs): pass
class AmbiguousTruth:
    # like an array: asking for its truth value raises
    def __bool__(self): raise ValueError("truth value ambiguous")
    def m(self, *args, **kwargs): return g(*args, **kwargs)
    def plain(self, a, b=1): pass
    def __call__(self, *args, **kwargs): return g(*args, **kwargs)
class UnsizedStream:
    def __len__(self): raise TypeError("length unknown")
    def m(self, *args, **kwargs): return g(*args, **kwargs)
class UnhashableCallable:
    __hash__ = None
    def __call__(self, a, *args, **kwargs): return g(*args, **kwargs)
class CallableClass:
    # calling the CLASS goes to __init__; __call__ is for its instances
    def __init__(self, u, v=1): pass
    def __call__(self, *args, **kwargs): return g(*args, **kwargs)
class CallableClass2:
    def __call__(self, x, *args, **kwargs): return g(*args, **kwargs)
def starry(*args, **kwargs): pass
class DeclaredMethod:
    def inner(self, x, y=2): pass
    @specifiers.forwards_to_method('inner')
    def outer(self, a, *args, **kwargs): return self.inner(*args, **kwargs)
class StaticPok:
    # modifiers under staticmethod: looked up on the class these are plain callables, not methods
    @staticmethod
    @modifiers.kwoargs('l2')
    def helper(l2, b, *args, **kwargs): return l2(*args, **kwargs)
    @staticmethod
    @modifiers.posoargs('a')
    def helper2(a, b=1): return a
    @modifiers.kwoargs('k')
    def meth(self, a, k=1): return a
class NoSelf:
    # a method written without an explicit self: *args receives the instance
    def m(*args, **kwargs): return nothing(*args, **kwargs)
    def k(*args, **kwargs): return g(*args, **kwargs)
def kwonly(*, q): return q
def kwstar(a, b, **kw): return g(a, **kw)
exec_ns = {}
exec("def nosource(*args, **kwargs): return 1", exec_ns)
nosource = exec_ns["nosource"]
OBJECTS = [lam, lam2, coro, gen, agen, walrus, matcher, comp, dcomp, starred, glob, nonl, Body, Body(), Body.m, Body().m, Body.s,
           Body.c, two, incompatible, part, part2, recursive, mutual_a, unresolved, notcallable, builtin, cfunc, deleted, onearg,
           functools.partial(onearg, g), functools.partial(onearg, 3), wrapped, wrapped2, nosource, functools.partial(g, 1, c=3),
           print, len, dict, int, object, type, functools.partial(print), str.join, [].append, Body.__init__, Body().__init__,
           specifiers.forwards_to_function, modifiers.kwoargs, wrappers.decorator, sigtools.signature,
           NoSelf().m, NoSelf().k, NoSelf.m,
           # partial objects that can never be called: inspect.signature raises ValueError, so must sigtools
           functools.partial(g, 1, 2, 3), functools.partial(g, 1, a=2), functools.partial(kwonly, 1),
           functools.partial(onearg, g, 1, 2, 3), functools.partial(functools.partial(g, 1), 2, 3),
           functools.partial(kwstar, 0, 1, 2), functools.partial(kwstar, 0, a=1),
           recur_n, recur_kw, recur_lit, cycle_a, cycle_b, Rec().walk, Rec.walk, functools.partial(recur_n, 3),
           fallback_lam, ifline_lam, forelse_lam, star_of_global, dstar_of_global, RaisingProp().viaprop, RaisingProp().viaprop2, KwOnlyMethod().m, KwOnlyMethod.m,
           AmbiguousTruth().m, AmbiguousTruth().plain, AmbiguousTruth(), UnsizedStream().m,
           UnhashableCallable(), CallableClass, CallableClass(1), CallableClass2, CallableClass2(),
           functools.partial(starry, kwargs=1), functools.partial(starry, args=1), DeclaredMethod().outer, DeclaredMethod.outer]
'''


def rt_adversarial(req):
    """C07 on generated adversarial sources"""
    mod, fname = progs.load_module(ADV_OBJECT_SOURCES)
    problems = []
    n = 0
    import builtins
    try:
        # second pass: the namespace a script / an interactive session has -- `__builtins__` bound to the module, not its dict
        for obj in list(mod.OBJECTS) + ['builtins-module'] + list(mod.OBJECTS):
            if obj == 'builtins-module':
                mod.__dict__['__builtins__'] = builtins
                continue
            n += 1
            insp = _outcome(inspect.signature, obj)
            for name, fn in (('sigtools.signature', sigtools.signature),
                             ('signature(auto=False)', lambda o: specifiers.signature(o, auto=False)),
                             ('signatures.signature', signatures.signature)):
                o = _outcome(fn, obj)
                if insp[0] == 'ok' and o[0] != 'ok':
                    key = 'retrieval-raises'
                    try:
                        hash(obj)
                    except TypeError:
                        key = 'retrieval-raises-unhashable'            # finding D52
                    if isinstance(obj, functools.partial) and o[1] == 'ValueError':
                        try:
                            taken = {q.name for q in inspect.signature(obj.func).parameters.values()
                                     if q.kind in (q.VAR_POSITIONAL, q.VAR_KEYWORD, q.POSITIONAL_ONLY)}
                        except Exception:  # noqa
                            taken = set()
                        if taken & set(obj.keywords or ()):
                            key = 'retrieval-raises-partial-keyword-named-like-parameter'     # finding D51
                    problems.append('%s: %s(%r) raised %s although inspect.signature succeeds' % (key, name, obj, o[1]))
                elif insp[0] == 'ok' and o[1] != 'UpgradedSignature':
                    problems.append('not-upgraded: %s(%r) returned a %s' % (name, obj, o[1]))
                elif insp[0] != 'ok' and o[0] != 'ok' and o[1] != insp[1]:
                    problems.append('different-exception: %s(%r) raised %s, inspect.signature raised %s' % (name, obj, o[1], insp[1]))
                elif insp[0] == 'ok' and o[0] == 'ok' and isinstance(obj, type) and name == 'sigtools.signature':
                    # calling a class goes to its constructor: what is reported must not accept calls the constructor rejects
                    own, R = _params3(insp[2]), _params3(o[2])
                    if len(own) <= 6 and len(R) <= 6:
                        for m_, K_ in _orc.shapes_for([own, R], foreign=('zz_',), maxk=2):
                            if _orc.non_colliding(R, [own], K_) and _orc.acc(R, m_, K_) and not _orc.acc(own, m_, K_):
                                problems.append('class-widens: sigtools.signature(%r) = %s accepts (%d,%s) but calling the class takes %s' % (
                                    obj, o[2], m_, K_, insp[2]))
                                break
        # the Sphinx hook on the named members of this module (it resolves the dotted name itself)
        import sys as _sys
        from sigtools import sphinxext
        _sys.modules[mod.__name__] = mod
        try:
            for dotted in ('StaticPok.helper', 'StaticPok.helper2', 'StaticPok.meth', 'StaticPok', 'Body.m', 'Body.s', 'Body.c', 'Body',
                           'NoSelf.m', 'two', 'wrapped2', 'lam', 'recur_n', 'DeclaredMethod.outer', 'DeclaredMethod', 'CallableClass',
                           'RaisingProp.viaprop', 'KwOnlyMethod.m', None,
                           # members a class inherits (autodoc's :inherited-members: passes such names)
                           'BodySub.m', 'BodySub.s', 'BodySub.c', 'BodySubSub.m', 'BodySubSub.c', 'BodySubSub.own', 'BodySub'):
                try:
                    with warnings.catch_warnings():
                        warnings.simplefilter('ignore')
                        # None: the module itself (a top-level module name)
                        r = sphinxext.process_signature(None, 'function', mod.__name__ + ('.' + dotted if dotted else ''), None, None, '(PASSED)', 'RET')
                    if not (isinstance(r, tuple) and len(r) == 2 and all(isinstance(x, str) for x in r)):
                        problems.append('sphinx-hook-result: process_signature(%s) returned %r' % (dotted, r))
                except BaseException as e:  # noqa
                    problems.append('sphinx-hook-raises: process_signature(<adversarial module>.%s) raised %s: %s' % (dotted, type(e).__name__, str(e)[:80]))
        finally:
            _sys.modules.pop(mod.__name__, None)
    finally:
        progs.unload(fname)
    return ('ok', tuple(problems[:12]), 'objects:%d' % n)


RT.update({'retrieve': rt_retrieve, 'sphinx': rt_sphinx, 'adversarial': rt_adversarial})


# ----------------------------------------------------------------------------- C15: algebra failures become the fallback
_FALLBACK_SRC = """
def one(a): return a
def kwo(*, k): return k
def star_named(kwargs): return kwargs
def f_too_many(*args, **kwargs): return one(1, 2, *args, **kwargs)
def f_unknown_kw(*args, **kwargs): return one(*args, zzz=3, **kwargs)
def f_twice(*args, **kwargs): return one(1, *args, a=2, **kwargs)
def f_pos_to_kwo(*args, **kwargs): return kwo(1, *args, **kwargs)
def f_homonym(*args): return star_named(*args)
def f_two_incompatible(*args, **kwargs):
    one(*args, **kwargs)
    return kwo(*args, **kwargs)
def f_ok(*args, **kwargs): return one(*args, **kwargs)
"""


def rt_fallback(req):
    """a forwarding call whose written arguments do not fit the callee (mask / forwards / merge raise ValueError or
    IncompatibleSignatures): retrieval must return the plain signature, never let the exception out"""
    from . import progs
    mod, fname = progs.load_module(_FALLBACK_SRC)
    problems = []
    try:
        for name in sorted(n for n in vars(mod) if n.startswith('f_')):
            f = getattr(mod, name)
            with warnings.catch_warnings():
                warnings.simplefilter('ignore')
                plain = signatures.signature(f)
                try:
                    got = sigtools.signature(f)
                except Exception as e:  # noqa
                    problems.append('fallback-raises: sigtools.signature(%s) raised %s: %s (the body is `%s`)' % (
                        name, type(e).__name__, e, inspect.getsource(f).strip().split(chr(10))[-1].strip()))
                    continue
            if name not in ('f_ok', 'f_homonym') and str(got) != str(plain):
                problems.append('fallback-not-plain: sigtools.signature(%s) = %s, plain %s' % (name, got, plain))
            if name == 'f_ok' and str(got) != '(a)':
                problems.append('fallback-control: sigtools.signature(f_ok) = %s, expected (a)' % (got,))
            if name == 'f_homonym' and str(got) != '(kwargs, /)':
                problems.append('fallback-control: sigtools.signature(f_homonym) = %s, expected (kwargs, /)' % (got,))
    finally:
        progs.unload(fname)
    return ('ok', tuple(problems[:3]), 'probed')


RT['fallback'] = rt_fallback


# ----------------------------------------------------------------------------- C06: deterministic probes
_CHAIN_SRC = """
import functools
from sigtools import modifiers
def logged(f, *args, **kwargs): return f(*args, **kwargs)
def traced(f, *args, **kwargs): return f(*args, **kwargs)
def inner(x, y=2, *, z): return (x, y, z)
def m1(a, *args, **kwargs): return logged(inner, *args, **kwargs)
def m2(b, *args, **kwargs): return logged(m1, *args, **kwargs)
def m3(c, *args, **kwargs): return logged(m2, *args, **kwargs)
def m4(d, *args, **kwargs): return logged(m3, *args, **kwargs)
def m5(e, *args, **kwargs): return logged(m4, *args, **kwargs)
def n1(a, *args, **kwargs): return logged(inner, *args, **kwargs)
def n2(b, *args, **kwargs): return traced(n1, *args, **kwargs)
def n3(c, *args, **kwargs): return logged(n2, *args, **kwargs)
def n4(d, *args, **kwargs): return traced(n3, *args, **kwargs)
def deep0(c, *args, **kwargs):
    return inner(*args, **kwargs)
def deep1(c, *args, **kwargs):
    def l1():
        return inner(*args, **kwargs)
    return l1()
def deep2(c, *args, **kwargs):
    def l1():
        def l2():
            return inner(*args, **kwargs)
        return l2()
    return l1()
def deep3(c, *args, **kwargs):
    return (lambda: (lambda: (lambda: inner(*args, **kwargs))())())()
def deep2q(c, *args, **kwargs):
    def l1(q):
        def l2():
            return inner(*args, **kwargs)
        return l2()
    return l1(1)
class Box(list):
    def target(self, x, y=2, *, z): return (x, y, z)
    def call(self, c, *args, **kwargs): return self.target(*args, **kwargs)
    def __call__(self, c, *args, **kwargs): return self.target(*args, **kwargs)
class Flag:
    def __init__(self, v): self.v = v
    def __bool__(self): return self.v
    def target(self, x, y=2, *, z): return (x, y, z)
    def call(self, c, *args, **kwargs): return self.target(*args, **kwargs)
@modifiers.kwoargs('k')
def kw(f, a, k=3, *args, **kwargs): return f(*args, **kwargs)
def kw_native(f, a, *args, k=3, **kwargs): return f(*args, **kwargs)
@modifiers.posoargs('f', 'a')
def po(f, a, *args, **kwargs): return f(*args, **kwargs)
def po_native(f, a, /, *args, **kwargs): return f(*args, **kwargs)
@modifiers.autokwoargs
def au(f, a, k=3, *args, **kwargs): return f(*args, **kwargs)
"""


def rt_probes_c06(req):
    """(1) one forwarding helper used at every level of a chain of wrappers: each level's discovered signature equals the
    explicit declaration forwards(own, <signature of the level below>) -- at any depth; (2) a modifiers-decorated forwarding
    wrapper whose callee is bound by a functools.partial object is analysed like its natively written twin"""
    mod, fname = progs.load_module(_CHAIN_SRC)
    problems = []
    try:
        with warnings.catch_warnings():
            warnings.simplefilter('ignore')
            for fam in ('m', 'n'):
                below = signatures.signature(mod.inner)
                for k in range(1, 6 if fam == 'm' else 5):
                    f = getattr(mod, '%s%d' % (fam, k))
                    want = signatures.forwards(signatures.signature(f), below, 0, use_varargs=True, use_varkwargs=True)
                    got = sigtools.signature(f)
                    if str(got) != str(want):
                        problems.append('chain-differs-from-declaration: level %d of a chain of wrappers going through one helper function: '
                                        'discovered %s, declared %s' % (k, got, want))
                        break
                    gs = {n: [getattr(x, '__name__', x) for x in v] for n, v in got.sources.items() if n != '+depths'}
                    if any('inner' not in v for n, v in gs.items() if n in ('x', 'y', 'z')):
                        problems.append('chain-provenance: level %d: sources %s do not credit inner' % (k, gs))
                        break
                    below = want
            # how deep the forwarding call is nested, and whether the functions in between bind names, is irrelevant
            base = str(sigtools.signature(mod.deep0))
            for nm in ('deep1', 'deep2', 'deep3', 'deep2q'):
                got = str(sigtools.signature(getattr(mod, nm)))
                if got != base:
                    problems.append('nesting-depth-changes-outcome: the forwarding call written directly gives %s, nested as in %s it gives %s' % (
                        base, nm, got))
                    break
            # what is discovered for a bound method does not depend on the truth value of the instance
            for empty, full in ((mod.Box(), mod.Box([1])), (mod.Flag(False), mod.Flag(True))):
                for attr in ('call',) + (('__call__',) if isinstance(empty, list) else ()):
                    a, b = str(sigtools.signature(getattr(empty, attr))), str(sigtools.signature(getattr(full, attr)))
                    if a != b:
                        problems.append('falsy-instance-changes-outcome: %s.%s of a falsy instance is reported as %s, of a truthy one as %s' % (
                            type(empty).__name__, attr, a, b))
                if isinstance(empty, list):
                    a, b = str(sigtools.signature(empty)), str(sigtools.signature(full))
                    if a != b:
                        problems.append('falsy-instance-changes-outcome: a falsy callable instance is reported as %s, a truthy one as %s' % (a, b))
            for dec, nat in (('kw', 'kw_native'), ('po', 'po_native'), ('au', 'kw_native')):
                for extra in ((), (1,)):
                    pd = functools.partial(getattr(mod, dec), mod.inner, *extra)
                    pn = functools.partial(getattr(mod, nat), mod.inner, *extra)
                    a, b = str(sigtools.signature(pd)), str(sigtools.signature(pn))
                    if a != b:
                        problems.append('hint-partial-differs: functools.partial(%s, inner%s) is reported as %s, its natively written twin as %s' % (
                            dec, ''.join(', %r' % x for x in extra), a, b))
    finally:
        progs.unload(fname)
    return ('ok', tuple(problems[:3]), 'probed')


RT['probes_c06'] = rt_probes_c06


_DFLT_CALLEE_SRC = """
import functools
def target(x, y=0, *, z=0):
    return ('target', x, y, z)
def other(q):
    return ('other', q)
def dispatch(tag, *args, callee=target, **kwargs):
    return callee(*args, **kwargs)
def dispatch_pk(tag, callee=target, *args, **kwargs):
    return callee(*args, **kwargs)
def outer(*args, **kwargs):
    return dispatch('t', *args, **kwargs)
def outer_kw(*args, **kwargs):
    return dispatch(*args, tag='t', **kwargs)
bound = functools.partial(dispatch, 't')
bound_pk = functools.partial(dispatch_pk, 't')
class K(object):
    def m(self, *args, callee=target, **kwargs):
        return callee(*args, **kwargs)
inst = K()
"""


def rt_dflt_callee(req):
    """a callee that is a parameter WITH A DEFAULT is not known: the caller can replace it.  However the wrapper is entered
    (directly, through a partial object binding another parameter, as a bound method, from an outer wrapper that passes
    another argument) discovery must leave the stars alone; and what it reports must only accept calls that run - also
    calls that pass another callee"""
    from . import oracles as O
    mod, fname = progs.load_module(_DFLT_CALLEE_SRC)
    problems = []
    try:
        with warnings.catch_warnings():
            warnings.simplefilter('ignore')
            for name, want in (('dispatch', '(tag, *args, callee=TARGET, **kwargs)'), ('bound', '(*args, callee=TARGET, **kwargs)'),
                               ('outer', '(*args, callee=TARGET, **kwargs)'), ('outer_kw', '(*, callee=TARGET, **kwargs)'),
                               ('inst.m', '(*args, callee=TARGET, **kwargs)'), ('dispatch_pk', '(tag, callee=TARGET, *args, **kwargs)'),
                               ('bound_pk', '(callee=TARGET, *args, **kwargs)')):
                obj = mod
                for part in name.split('.'):
                    obj = getattr(obj, part)
                got = sigtools.signature(obj)
                gs = str(got).replace(repr(mod.target), 'TARGET')
                if gs != want:
                    problems.append('defaulted-callee-resolved: %s forwards to a parameter that has a default (the caller may pass another '
                                    'callee); discovery reports %s, expected its own %s' % (name, gs, want))
                # the soundness side: once the stars are replaced, every accepted call must run, whichever callee the caller passes
                for a, k in () if gs == want else (((1,), {}), ((1, 2), {'z': 3}), ((7,), {'callee': mod.other}), ((1, 2), {'callee': mod.other}),
                             ((), {'callee': mod.other, 'q': 1}), ((), {'x': 1})):
                    if name in ('dispatch', 'dispatch_pk'):
                        a = ('t',) + a
                    if name in ('dispatch_pk', 'bound_pk') and 'callee' in k:
                        continue
                    try:
                        got.bind(*a, **k)
                    except TypeError:
                        continue
                    try:
                        obj(*a, **k)
                    except TypeError as e:
                        problems.append('defaulted-callee-unsound: %s is reported as %s which accepts %r %r, but the call raises %s' % (
                            name, gs, a, {x: getattr(v, '__name__', v) for x, v in k.items()}, e))
                        break
    finally:
        progs.unload(fname)
    return ('ok', tuple(problems[:3]), 'probed')


RT['dflt_callee'] = rt_dflt_callee


_MODPROV_SRC = """
from sigtools import modifiers
def inner(x, y=0, *, z=0):
    return ('inner', x, y, z)
RAW = {}
OBJ = {}
def reg(name, raw, obj):
    RAW[name] = raw
    OBJ[name] = obj
def mk():
    def f(a, b, c=1, d=2):
        return (a, b, c, d)
    return f
def mkw():
    def w(a, c=1, *args, **kwargs):
        return inner(*args, **kwargs)
    return w
K, P, A, N = modifiers.kwoargs, modifiers.posoargs, modifiers.autokwoargs, modifiers.annotate
STACKS = {
    'kwo': lambda f: K('c')(f),
    'poso': lambda f: P('a')(f),
    'kwo_over_poso': lambda f: K('c')(P('a')(f)),
    'poso_over_kwo': lambda f: P('a')(K('c')(f)),
    'kwo_twice': lambda f: K('d')(K('c')(f)),
    'auto_over_poso': lambda f: A(P('a')(f)),
    'end_over_start': lambda f: P(end='a')(K(start='c')(f)),
    'annotate_over_kwo': lambda f: N(a=int)(K('c')(f)),
    'kwo_over_annotate': lambda f: K('c')(N(a=int)(f)),
    'annotate_over_stack': lambda f: N(a=int)(K('c')(P('a')(f))),
}
for name, st in STACKS.items():
    raw = mk()
    reg('fn:' + name, raw, st(raw))
    raw = mkw()
    reg('fwd:' + name, raw, (K('c')(P('a')(raw)) if name == 'kwo_over_poso' else P('a')(K('c')(raw)) if name == 'poso_over_kwo' else
                             K('c')(raw) if name == 'kwo' else P('a')(raw) if name == 'poso' else A(P('a')(raw)) if name == 'auto_over_poso' else None))
class C(object):
    def m(self, a, b, c=1, d=2):
        return (a, b, c, d)
    raw_m = m
    m = K('c')(P('self', 'a')(m))
    def m1(self, a, b, c=1, d=2):
        return (a, b, c, d)
    raw_m1 = m1
    m1 = K('c')(m1)
    def m2(self, a, b, c=1, d=2):
        return (a, b, c, d)
    raw_m2 = m2
    m2 = K('d')(K('c')(m2))
    def m3(self, a, b, c=1, d=2):
        return (a, b, c, d)
    raw_m3 = m3
    m3 = N(a=int)(m3)
    def m4(self, a, b, c=1, d=2):
        return (a, b, c, d)
    raw_m4 = m4
    m4 = N(a=int)(K('c')(m4))
    def m5(self, a, b, c=1, d=2):
        return (a, b, c, d)
    raw_m5 = m5
    m5 = K('c')(N(a=int)(m5))
inst = C()
class Init(object):
    @N(x=int)
    def __init__(self, x, y=0):
        pass
"""


def rt_modprov(req):
    """C08, last clause: the wrapper objects modifiers create replace the function they wrap in BOTH maps, for one modifier and
    for stacks of them (in every order), on functions, forwarding functions, and methods (through the class and bound)"""
    import types
    mod, fname = progs.load_module(_MODPROV_SRC)
    problems = []

    def check(label, obj, raws, inner_expected, relaxed=False):
        with warnings.catch_warnings():
            warnings.simplefilter('ignore')
            sig = sigtools.signature(obj)
        src = dict(sig.sources)
        depths = src.pop('+depths', None)
        names = list(sig.parameters)
        if depths is None or sorted(src) != sorted(names):
            problems.append('modifier-provenance-keys: %s: sources keys %s, parameters %s' % (label, sorted(src), names))
            return
        zero = [c for c, d in depths.items() if d == 0]
        if relaxed:
            # a function whose __signature__ was set by annotate: the function stands for itself, also when bound
            if len(zero) != 1:
                problems.append('modifier-provenance-depth0: %s = %s: +depths = %r' % (label, sig, depths))
        elif len(zero) != 1 or zero[0] is not obj:
            problems.append('modifier-provenance-depth0: %s = %s: the callables at depth 0 are %r, expected exactly the object retrieved '
                            '(+depths = %r)' % (label, sig, zero, depths))
        for n, lst in src.items():
            if not lst or len(set(map(id, lst))) != len(lst) or any(all(c is not d for d in depths) for c in lst):
                problems.append('modifier-provenance-list: %s: sources[%s] = %r, +depths = %r' % (label, n, lst, depths))
                break
        for raw in raws:
            func = getattr(raw, '__func__', raw)
            for c in list(depths) + [c for lst in src.values() for c in lst]:
                if c is raw or c is func or (isinstance(c, types.MethodType) and c.__func__ is func):
                    problems.append('modifier-provenance-raw-function: %s = %s: the undecorated function appears in the maps although the '
                                    'wrapper object stands for it (sources %r, +depths %r)' % (label, sig, src, depths))
                    return
        if inner_expected:
            for n in ('x', 'y', 'z'):
                if n in src and not (len(src[n]) == 1 and src[n][0] is mod.inner and depths.get(mod.inner) == 1):
                    problems.append('modifier-provenance-inner: %s = %s: sources[%s] = %r, +depths = %r; expected [inner] at depth 1' % (
                        label, sig, n, src[n], depths))
                    break
    try:
        for name, obj in mod.OBJ.items():
            if obj is None:
                continue
            check(name, obj, [mod.RAW[name]], name.startswith('fwd:'))
        for attr in ('m', 'm1', 'm2', 'm3', 'm4', 'm5'):
            raw = mod.C.__dict__['raw_' + attr]
            plain_annotate = attr == 'm3'        # annotate alone returns the function itself: there is no wrapper object
            check('C.' + attr, mod.C.__dict__[attr], [] if plain_annotate else [raw], False, relaxed=plain_annotate)
            bound = getattr(mod.inst, attr)
            check('C().' + attr, bound, [] if plain_annotate else [raw], False, relaxed=plain_annotate)
        check('Init', mod.Init, [], False, relaxed=True)
        # ... and what the class-level objects answer is not changed by the bound retrievals made since (order of retrieval)
        for attr in ('m', 'm1', 'm2', 'm3', 'm4', 'm5'):
            check('C.%s again' % attr, mod.C.__dict__[attr], [] if attr == 'm3' else [mod.C.__dict__['raw_' + attr]], False, relaxed=attr == 'm3')
        check('Init.__init__', mod.Init.__dict__['__init__'], [], False, relaxed=True)
        # ... and through a functools.partial object of the bound method: keys = parameters (finding D60)
        for attr in ('m3', 'm4'):
            pobj = functools.partial(getattr(mod.inst, attr), 1)
            with warnings.catch_warnings():
                warnings.simplefilter('ignore')
                psig = signatures.signature(pobj)
            keys = sorted(k for k in psig.sources if k != '+depths')
            if keys != sorted(psig.parameters):
                problems.append('modifier-provenance-keys: functools.partial(C().%s, 1): sources keys %s, parameters %s' % (
                    attr, keys, list(psig.parameters)))
    finally:
        progs.unload(fname)
    return ('ok', tuple(problems[:3]), 'probed')


RT['modprov'] = rt_modprov
