"""harness/real_disc.py — real-side adapters for automatic discovery and retrieval (C05, C06, C07)."""
import ast, inspect, warnings, functools
from . import core, corpus, treeser
import sigtools
from sigtools import _autoforwards, _util, specifiers, signatures

_AST = {}


def corpus_ast(idx):
    if idx in _AST:
        return _AST[idx]
    f = corpus.callables()[0][idx]
    try:
        with warnings.catch_warnings():
            warnings.simplefilter('ignore')
            t = _util.get_ast(f)
    except BaseException as e:  # noqa
        t = ('raised', type(e).__name__)
    _AST[idx] = t
    return t


def req_tree(req):
    if req[1] == 'corpus':
        return corpus_ast(req[2])
    if req[1] == 'src':
        return ast.parse(req[2]).body[0]
    raise core.HarnessError('unknown tree source %r' % (req[1],))


def visit_line(req):
    return treeser.tree_line(req_tree(req))


def real_visit(req):
    t = req_tree(req)
    try:
        v = _autoforwards.CallListerVisitor(t)
    except core.CanonError:
        raise
    except RecursionError:
        return ('err', 'RecursionError')
    except Exception as e:  # noqa
        return core.canon_exc(e)
    return treeser.canon_calls(v.calls)


OPS = {'visit': real_visit}
RT = {}
