"""harness/real_disc.py — real-side adapters for automatic discovery and retrieval (C05, C06, C07)."""
import ast, inspect, warnings, functools
from . import core, corpus, treeser
import sigtools
from sigtools import _autoforwards, _util, specifiers, signatures

_AST = {}


def corpus_ast(idx):
    if idx in _AST:
        return _AST[idx]
    f = corpus.callables()[0][idx]
    try:
        with warnings.catch_warnings():
            warnings.simplefilter('ignore')
            t = _util.get_ast(f)
    except BaseException as e:  # noqa
        t = ('raised', type(e).__name__)
    _AST[idx] = t
    return t


def req_tree(req):
    if req[1] == 'corpus':
        return corpus_ast(req[2])
    if req[1] == 'src':
        return ast.parse(req[2]).body[0]
    raise core.HarnessError('unknown tree source %r' % (req[1],))


def visit_line(req):
    return treeser.tree_line(req_tree(req))


def real_visit(req):
    t = req_tree(req)
    try:
        v = _autoforwards.CallListerVisitor(t)
    except core.CanonError:
        raise
    except RecursionError:
        return ('err', 'RecursionError')
    except Exception as e:  # noqa
        return core.canon_exc(e)
    return treeser.canon_calls(v.calls)


OPS = {'visit': real_visit}
RT = {}


# ----------------------------------------------------------------------------- programs of the forwarding grammar
from . import progs  # noqa: E402


def own_desc(p):
    ps = [core.P(x, 'pk') for x in p['params']] + [core.P(p['va'], 'vp'), core.P(p['vk'], 'vk')]
    return core.D(ps, fn=1)


def marker_str(expr, p):
    """canonical marker string (as Model/Protocol.lean showRM) of a callee expression"""
    node = ast.parse(expr, mode='eval').body

    def go(n):
        if isinstance(n, ast.Name):
            return ('R' if n.id in p['params'] else 'M') + str(core.NAMES.id(n.id))
        if isinstance(n, ast.Attribute):
            return 'A(%s.%d)' % (go(n.value), core.NAMES.id(n.attr))
        return 'U'
    return go(node)


def prog_line(op, p):
    toks = progs.prog_tokens(p)
    if op in ('render', 'pvisit', 'ptruth', 'progok'):
        return '%s %s' % (op, ' '.join(toks))
    # pauto / pdeclared: resolution table
    tbl = []
    for s in _all_fwds(p['body']):
        m = marker_str(s[1], p)
        k = s[7]
        if p['route'] == 'param':
            continue
        if m not in [t[0] for t in tbl]:
            tbl.append((m, core.sig_line(core.D(p['callees'][k], fn=10 + k))))
    if p['route'] == 'param':
        tbl.append(('R%d' % core.NAMES.id('cb'), core.sig_line(core.D(p['callees'][0], fn=10))))
    pm = 'A(M%d.%d)' % (core.NAMES.id('functools'), core.NAMES.id('partial'))
    return '%s %s %d %s %s %s' % (op, pm, len(tbl), ' '.join('%s %s' % t for t in tbl), core.sig_line(own_desc(p)), ' '.join(toks))


def _all_fwds(stmts):
    for s in stmts:
        if s[0] == 'fwd':
            yield s
        elif s[0] in ('block', 'nested'):
            for t in _all_fwds(s[1]):
                yield t


def wrapper_ast(p):
    src = '\n'.join(progs.wrapper_source(p)) + '\n'
    return ast.parse(src).body[0]


def real_render(req):
    return ('ok', ' '.join(treeser.ser(wrapper_ast(req[1]), [], root=True)))


def real_pvisit(req):
    t = wrapper_ast(req[1])
    try:
        v = _autoforwards.CallListerVisitor(t)
    except Exception as e:  # noqa
        return core.canon_exc(e)
    return treeser.canon_calls([c for c in v.calls if c.use_varargs or c.use_varkwargs])


def truth_records(p):
    """canonical records from the PYTHON ground truth (independent of Lean and of the visitor)"""
    out = []
    for (s, ua, uk, ha, hk) in progs.py_truth(p):
        _, callee, npos, kws = s[:4]
        va = ('R%d' % core.NAMES.id(p['va'])) if ua else ('U' if ha else '-')
        vk = ('R%d' % core.NAMES.id(p['vk'])) if uk else ('U' if hk else '-')
        out.append('%s|%s|%s|%s|%s|%d%d%d%d' % (
            marker_str(callee, p), ','.join(['U'] * npos) or '_',
            ','.join('%d=U' % core.NAMES.id(k) for k in kws) or '_', va, vk, ua, uk, ha, hk))
    return ('ok', len(out), ';'.join(out) or '_')


def real_ptruth(req):
    return truth_records(req[1])


def load_prog(p, execute=True, decorators=()):
    src = progs.module_source(p, execute=execute, decorators=decorators)
    mod, fname = progs.load_module(src)
    w = getattr(mod, 'wrapper', None)
    if p['route'] == 'closure':
        w = mod.target
    if p['route'] == 'self':
        w = mod.C.__dict__['wrapper']
    core.register_callable(w, 1)
    for k in range(len(p['callees'])):
        g = getattr(mod, 'g%d' % k)
        core.register_callable(g, 10 + k)
        if p['route'] == 'self':
            core.register_callable(mod.C.__dict__['m%d' % k], 10 + k)
    if p['route'] == 'param':
        core.register_callable(mod.target, 2)
    return mod, fname


def real_pauto(req):
    p = req[1]
    mod, fname = load_prog(p)
    try:
        return core.run_real(sigtools.signature, mod.target)
    finally:
        progs.unload(fname)


OPS.update({'render': real_render, 'pvisit': real_pvisit, 'ptruth': real_ptruth, 'pauto': real_pauto})
